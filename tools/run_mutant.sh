#!/bin/bash
# usage: tools/run_mutant.sh <diff> [check ids...]   applies the change to /repo, runs the quick
# checks, and ALWAYS restores /repo afterwards. Prints one line per check.
set -u
DIFF="$1"; shift
IDS="${*:-$(seq -f 'C%02g' 1 20)}"
cd /verif
if [ -n "$(git -C /repo status --porcelain)" ]; then echo "/repo not clean"; exit 2; fi
restore() { git -C /repo checkout -q -- . ; git -C /repo clean -fdq >/dev/null 2>&1; }
trap restore EXIT
git -C /repo apply "$DIFF" || { echo "APPLY-FAILED"; exit 2; }
for id in $IDS; do
  out=$(bin/check "$id" quick 2>&1); rc=$?
  kinds=$(echo "$out" | grep -o "kind=[^ ]*" | sort -u | head -4 | tr '\n' ' ')
  echo "$id rc=$rc $kinds"
done
