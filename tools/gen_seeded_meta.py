#!/usr/bin/env python3
"""Writes seeded/<id>/meta.json from the table below plus the result.txt of the last mutation_table run."""
import json, os, re
M = {
 "C01A": ("C01", "forwarder.validateInitialConditions: balance.Equal(amount) relaxed to !balance.LT(amount)", "a fee pre-action whose recipient decodes to the orbiter account (self transfer lowers the amount to forward without moving coins)", ["C01","C11"]),
 "C01B": ("C01", "JSONParser.Parse: memo without the 'orbiter' key returns the pass-through sentinel ErrNoOrbiterPacket instead of ErrParsingPayload", "receiver = orbiter account and a memo that is valid JSON with one root key other than 'orbiter' (PFM / wasm memo, {\"orbiter\":null})", ["C14"]),
 "C02A": ("C02", "CCTPController.executeForwarding: err shadowed with := on the no-caller branch, DepositForBurn failure swallowed", "CCTP payload without destination caller and a failure inside the CCTP message server (burn limit, missing messenger, ...)", ["C01","C02","C03","C11"]),
 "C02B": ("C02", "fee action skips bank-blocked recipients (continue) while the destination amount is still lowered by the full total; forwarder precondition relaxed to LT", "fee list containing a blocked recipient (dust collector) or the orbiter account", ["C01","C02","C04","C11"]),
 "C03A": ("C03", "same shape as C02A (independently written): := shadows err on the no-caller CCTP branch", "CCTP payload without caller and a failing DepositForBurn", ["C01","C02","C03","C11"]),
 "C03B": ("C03", "forwarder.validatePacket wraps the OUTER (nil) err when validateInitialConditions fails: errorsmod.Wrap(nil, ..) == nil", "module balance != amount to forward at forwarding time (fee to the orbiter account, or a wrong balance answer)", ["C01","C11"]),
 "C04A": ("C04", "ComputeFeesToDistribute: 'break' instead of 'continue' for an entry that rounds to zero", "list of >= 2 entries in which a bps entry with A*bps < 10000 precedes a positive one", ["C02","C04","C05","C06","C12"]),
 "C04B": ("C04", "FeeInfo.Validate returns early for the fixed-amount case, skipping the recipient check", "fixed-amount entry with an empty / malformed / foreign-prefix recipient", ["C04"]),
 "C05A": ("C05", "Hyperlane executeForwarding passes the hook metadata only when a custom hook id is set", "Hyperlane payload with non-empty custom_hook_metadata and empty custom_hook_id", ["C05"]),
 "C05B": ("C05", "CCTP executeForwarding: with-caller branch only for callers of exactly 32 bytes", "CCTP payload whose destination_caller is non-empty and not 32 bytes (e.g. 20-byte EVM address)", []),
 "C06A": ("C06", "Payload.Validate sorts p.PreActions in place (slice aliasing) for duplicate detection", ">= 2 pre-actions in descending id order ([SWAP, FEE]); needs a second action controller", ["C06"]),
 "C06B": ("C06", "executor hands the controller a copy of the transfer attributes and writes back only the amount", "a registered controller that changes the denomination", ["C06"]),
 "C07A": ("C07", "isOrbiterReceiver: strings.EqualFold with the module address instead of decoding", "mixed-case spelling of the orbiter address (not valid bech32, not the orbiter account)", ["C07"]),
 "C07B": ("C07", "NewIBCCrossChainPacket validates the SOURCE channel with ibc-go's channel-N format", "source channel that is a valid ICS-24 identifier but not channel-N", ["C07"]),
 "C08A": ("C08", "PauseCrossChains swallows ErrAlreadySet from the batch loop: truncated batch committed", "batch in which an already-paused (or duplicated) id precedes a not-yet-paused one", ["C08","C09"]),
 "C08B": ("C08", "pauseCrossChains returns early (success, nothing written) while the protocol is paused", "state 'protocol paused', then a cross-chain pause, visible in queries at once and in transfers after unpausing the protocol", ["C08","C09"]),
 "C09A": ("C09", "in-memory memo of the paused status in the Executor object (not in the store)", "a pause/unpause handler call whose writes are discarded (failed tx, simulation), then a transfer on committed state", ["C09"]),
 "C09B": ("C09", "SetUnpausedAction clears an open-ended key range starting at the id", "both actions paused, then unpause of the lower id", ["C09"]),
 "C10A": ("C10", "RequireAuthority accepts the orbiter module account as signer", "signer = bech32 of the orbiter module account", ["C10"]),
 "C10B": ("C10", "UpdateParams returns success before the authority check when the params are unchanged", "message whose params equal the stored ones", ["C10","C18"]),
 "C11A": ("C11", "commonBeforeTransferHook returns after the size check when a passthrough payload is present: sweep skipped", "raised passthrough limit + packet with a passthrough payload + dust of the transferred denom", []),
 "C11B": ("C11", "revert of fix 545e35d: fees may be paid to bank-blocked addresses", "history: fee to the dust collector address before the module account exists, dust deposit, later packet of that denom", ["C01","C11","C14"]),
 "C12A": ("C12", "OnRecvPacket builds the source cross-chain id from the packet's SOURCE channel", "packet whose source and destination channel ids differ", ["C06","C07","C12"]),
 "C12B": ("C12", "updateDispatchedAmount overwrites instead of accumulating when the stored incoming is zero", "denomination-changing action; entry {incoming 0, outgoing x} updated again later", []),
 "C13A": ("C13", "by-source listings use CollectionFilteredPaginate over the whole collection", "offset-based pagination with a filter other than the stored source protocol (or matching nothing) and count_total", []),
 "C13B": ("C13", "direct amount lookup: De Morgan slip, entry with one zero side reported NotFound", "single-sided entries of denomination-changing transfers", []),
 "C14A": ("C14", "hasNullListElement no longer recurses into list elements", "null inside a list nested in a list element (fees_info:[null])", ["C14"]),
 "C14B": ("C14", "revert of the checked addition: fees.Total.Add", ">= 2 fixed-amount entries summing to >= 2^256", ["C04"]),
 "C15A": ("C15", "ActionID.Validate looks the id up in ProtocolID_name", "numeric action id 3 or 4", ["C15"]),
 "C15B": ("C15", "Payload.UnpackInterfaces: pre-action errors joined, then overwritten by the forwarding's (nil) result", "otherwise valid memo whose pre-action attributes are a well-formed object of a type not registered as ActionAttributes", []),
 "C16A": ("C16", "hashed-denom guard tests the full denom instead of the unprefixed one (never fires)", "packet denom <port>/<channel>/ibc/<hash> while the escrow holds that voucher", ["C16"]),
 "C16B": ("C16", "ParsePacket parses the amount in base 10 (ICS-20 parses base 0)", "leading-zero amount (\"0100\") plus a self-fee to the orbiter account equal to the difference, which defeats the balance precondition", []),
 "C17A": ("C17", "ParseCrossChainID rewritten with strings.Split (exactly two parts)", "genesis entry whose internal-protocol destination counterparty contains ':'", ["C17","C20"]),
 "C17B": ("C17", "forwarder genesis duplicate check keyed by counterparty id only", "same counterparty string paused under two protocols (CCTP 1 and Hyperlane 1)", []),
 "C18A": ("C18", "UpdateParams ignores a message whose Params is the zero value (limit 0)", "limit raised to N > 0, then set back to 0, then a passthrough of 1..N bytes", ["C18"]),
 "C18B": ("C18", "CheckPassthroughPayloadSize returns nil when the params cannot be read", "store in which the parameter item was never written", []),
 "C19A": ("C19", "error acknowledgement embeds the full error text again for orbiter-codespace errors", "memo with >= 2 unknown fields (codec names the first in map iteration order)", ["C19"]),
 "C19B": ("C19", "Payload.Validate validates actions by ranging over a map", "payload with >= 2 pre-actions, distinct ids, each invalid in a way that maps to a different registered error", []),
 "C20A": ("C20", "isInteger rewritten with Atoi/Itoa: negative and > 2^32-1 values round-trip", "counterparty \"-1\", \"4294967296\", ... for CCTP/Hyperlane", ["C20"]),
 "C20B": ("C20", "same rewrite of ParseCrossChainID as C17A (independently written)", "counterparty id containing ':' (internal protocol)", ["C17","C20"]),
}
for mid, (prop, change, needs, first) in sorted(M.items()):
    d = f"/verif/seeded/{mid}"
    caught = []
    kinds = {}
    rp = os.path.join(d, "result.txt")
    if os.path.exists(rp):
        for line in open(rp):
            m = re.match(r"(C\d\d) rc=(\d+) ?(.*)", line.strip())
            if m and m.group(2) == "1":
                caught.append(m.group(1))
                kinds[m.group(1)] = m.group(3).strip()
    meta = {
        "id": mid,
        "breaks_property": prop,
        "change": change,
        "needs_to_manifest": needs,
        "written_by": "fresh sub-agent given only the property text and a scratch worktree (nothing from /verif)",
        "confirmed": "tools/verify_mutant.sh in the scratch worktree: git apply ok; go build ./... (root and simapp) ok; go test -vet=off -count=1 ./... passes with the change; demonstration test passes on the clean tree and fails with the change",
        "ran": "tools/run_mutant.sh (git -C /repo apply, bin/check <all 20> quick, git -C /repo checkout -- .)",
        "detected_by_first_round": first,
        "detected_by_now": caught,
        "violation_classes_now": kinds,
        "own_property_check_fires": prop in caught,
    }
    json.dump(meta, open(os.path.join(d, "meta.json"), "w"), indent=1)
rows = ["| id | property | change | needs | first round | now |", "|----|----------|--------|-------|-------------|-----|"]
for mid, (prop, change, needs, first) in sorted(M.items()):
    meta = json.load(open(f"/verif/seeded/{mid}/meta.json"))
    rows.append(f"| {mid} | {prop} | {change} | {needs} | {' '.join(first) or '—'} | {' '.join(meta['detected_by_now']) or '—'} |")
open("/verif/seeded/TABLE.md", "w").write("\n".join(rows) + "\n")
print("\n".join(rows[:5]))
