#!/usr/bin/env python3
"""Writes seeded/<id>/meta.json from the table below plus the result.txt of the last mutation_table run."""
import json, os, re
M = {
 "C01A": ("C01", "forwarder.validateInitialConditions: balance.Equal(amount) relaxed to !balance.LT(amount)", "a fee pre-action whose recipient decodes to the orbiter account (self transfer lowers the amount to forward without moving coins)", ["C01","C11"]),
 "C01B": ("C01", "JSONParser.Parse: memo without the 'orbiter' key returns the pass-through sentinel ErrNoOrbiterPacket instead of ErrParsingPayload", "receiver = orbiter account and a memo that is valid JSON with one root key other than 'orbiter' (PFM / wasm memo, {\"orbiter\":null})", ["C14"]),
 "C02A": ("C02", "CCTPController.executeForwarding: err shadowed with := on the no-caller branch, DepositForBurn failure swallowed", "CCTP payload without destination caller and a failure inside the CCTP message server (burn limit, missing messenger, ...)", ["C01","C02","C03","C11"]),
 "C02B": ("C02", "fee action skips bank-blocked recipients (continue) while the destination amount is still lowered by the full total; forwarder precondition relaxed to LT", "fee list containing a blocked recipient (dust collector) or the orbiter account", ["C01","C02","C04","C11"]),
 "C03A": ("C03", "same shape as C02A (independently written): := shadows err on the no-caller CCTP branch", "CCTP payload without caller and a failing DepositForBurn", ["C01","C02","C03","C11"]),
 "C03B": ("C03", "forwarder.validatePacket wraps the OUTER (nil) err when validateInitialConditions fails: errorsmod.Wrap(nil, ..) == nil", "module balance != amount to forward at forwarding time (fee to the orbiter account, or a wrong balance answer)", ["C01","C11"]),
 "C04A": ("C04", "ComputeFeesToDistribute: 'break' instead of 'continue' for an entry that rounds to zero", "list of >= 2 entries in which a bps entry with A*bps < 10000 precedes a positive one", ["C02","C04","C05","C06","C12"]),
 "C04B": ("C04", "FeeInfo.Validate returns early for the fixed-amount case, skipping the recipient check", "fixed-amount entry with an empty / malformed / foreign-prefix recipient", ["C04"]),
 "C05A": ("C05", "Hyperlane executeForwarding passes the hook metadata only when a custom hook id is set", "Hyperlane payload with non-empty custom_hook_metadata and empty custom_hook_id", ["C05"]),
 "C05B": ("C05", "CCTP executeForwarding: with-caller branch only for callers of exactly 32 bytes", "CCTP payload whose destination_caller is non-empty and not 32 bytes (e.g. 20-byte EVM address)", []),
 "C06A": ("C06", "Payload.Validate sorts p.PreActions in place (slice aliasing) for duplicate detection", ">= 2 pre-actions in descending id order ([SWAP, FEE]); needs a second action controller", ["C06"]),
 "C06B": ("C06", "executor hands the controller a copy of the transfer attributes and writes back only the amount", "a registered controller that changes the denomination", ["C06"]),
 "C07A": ("C07", "isOrbiterReceiver: strings.EqualFold with the module address instead of decoding", "mixed-case spelling of the orbiter address (not valid bech32, not the orbiter account)", ["C07"]),
 "C07B": ("C07", "NewIBCCrossChainPacket validates the SOURCE channel with ibc-go's channel-N format", "source channel that is a valid ICS-24 identifier but not channel-N", ["C07"]),
 "C08A": ("C08", "PauseCrossChains swallows ErrAlreadySet from the batch loop: truncated batch committed", "batch in which an already-paused (or duplicated) id precedes a not-yet-paused one", ["C08","C09"]),
 "C08B": ("C08", "pauseCrossChains returns early (success, nothing written) while the protocol is paused", "state 'protocol paused', then a cross-chain pause, visible in queries at once and in transfers after unpausing the protocol", ["C08","C09"]),
 "C09A": ("C09", "in-memory memo of the paused status in the Executor object (not in the store)", "a pause/unpause handler call whose writes are discarded (failed tx, simulation), then a transfer on committed state", ["C09"]),
 "C09B": ("C09", "SetUnpausedAction clears an open-ended key range starting at the id", "both actions paused, then unpause of the lower id", ["C09"]),
 "C10A": ("C10", "RequireAuthority accepts the orbiter module account as signer", "signer = bech32 of the orbiter module account", ["C10"]),
 "C10B": ("C10", "UpdateParams returns success before the authority check when the params are unchanged", "message whose params equal the stored ones", ["C10","C18"]),
 "C11A": ("C11", "commonBeforeTransferHook returns after the size check when a passthrough payload is present: sweep skipped", "raised passthrough limit + packet with a passthrough payload + dust of the transferred denom", []),
 "C11B": ("C11", "revert of fix 545e35d: fees may be paid to bank-blocked addresses", "history: fee to the dust collector address before the module account exists, dust deposit, later packet of that denom", ["C01","C11","C14"]),
 "C12A": ("C12", "OnRecvPacket builds the source cross-chain id from the packet's SOURCE channel", "packet whose source and destination channel ids differ", ["C06","C07","C12"]),
 "C12B": ("C12", "updateDispatchedAmount overwrites instead of accumulating when the stored incoming is zero", "denomination-changing action; entry {incoming 0, outgoing x} updated again later", []),
 "C13A": ("C13", "by-source listings use CollectionFilteredPaginate over the whole collection", "offset-based pagination with a filter other than the stored source protocol (or matching nothing) and count_total", []),
 "C13B": ("C13", "direct amount lookup: De Morgan slip, entry with one zero side reported NotFound", "single-sided entries of denomination-changing transfers", []),
 "C14A": ("C14", "hasNullListElement no longer recurses into list elements", "null inside a list nested in a list element (fees_info:[null])", ["C14"]),
 "C14B": ("C14", "revert of the checked addition: fees.Total.Add", ">= 2 fixed-amount entries summing to >= 2^256", ["C04"]),
 "C15A": ("C15", "ActionID.Validate looks the id up in ProtocolID_name", "numeric action id 3 or 4", ["C15"]),
 "C15B": ("C15", "Payload.UnpackInterfaces: pre-action errors joined, then overwritten by the forwarding's (nil) result", "otherwise valid memo whose pre-action attributes are a well-formed object of a type not registered as ActionAttributes", []),
 "C16A": ("C16", "hashed-denom guard tests the full denom instead of the unprefixed one (never fires)", "packet denom <port>/<channel>/ibc/<hash> while the escrow holds that voucher", ["C16"]),
 "C16B": ("C16", "ParsePacket parses the amount in base 10 (ICS-20 parses base 0)", "leading-zero amount (\"0100\") plus a self-fee to the orbiter account equal to the difference, which defeats the balance precondition", []),
 "C17A": ("C17", "ParseCrossChainID rewritten with strings.Split (exactly two parts)", "genesis entry whose internal-protocol destination counterparty contains ':'", ["C17","C20"]),
 "C17B": ("C17", "forwarder genesis duplicate check keyed by counterparty id only", "same counterparty string paused under two protocols (CCTP 1 and Hyperlane 1)", []),
 "C18A": ("C18", "UpdateParams ignores a message whose Params is the zero value (limit 0)", "limit raised to N > 0, then set back to 0, then a passthrough of 1..N bytes", ["C18"]),
 "C18B": ("C18", "CheckPassthroughPayloadSize returns nil when the params cannot be read", "store in which the parameter item was never written", []),
 "C19A": ("C19", "error acknowledgement embeds the full error text again for orbiter-codespace errors", "memo with >= 2 unknown fields (codec names the first in map iteration order)", ["C19"]),
 "C19B": ("C19", "Payload.Validate validates actions by ranging over a map", "payload with >= 2 pre-actions, distinct ids, each invalid in a way that maps to a different registered error", []),
 "C20A": ("C20", "isInteger rewritten with Atoi/Itoa: negative and > 2^32-1 values round-trip", "counterparty \"-1\", \"4294967296\", ... for CCTP/Hyperlane", ["C20"]),
 "C20B": ("C20", "same rewrite of ParseCrossChainID as C17A (independently written)", "counterparty id containing ':' (internal protocol)", ["C17","C20"]),
}
# round 2: harder changes (several steps, unusual values, particular prior state); the list of
# checks that fired before any strengthening is read from seeded/<id>/result_first.txt
M2 = {
 "C01C": ("C01", "CCTPController.executeForwarding restructured around a shared err variable and a debug log of the nonce; on the no-caller branch err is declared with := inside the block, so the outer err returned at the end stays nil", "CCTP forwarding without destination caller whose DepositForBurn fails inside the CCTP module (burn limit, unknown domain, paused burning)"),
 "C01D": ("C01", "DispatchPayload works on a CacheContext and returns nil before writeCache() when the statistics update fails", "a route whose cumulative statistics cannot be updated (total at the 256-bit limit: two transfers of 2^255, or imported statistics near 2^256-1), then a transfer: success acknowledgement, coins left on the orbiter account"),
 "C02C": ("C02", "InternalAttributes.Validate compares the recipient with the module address by spelling", "internal forwarding to the orbiter account written in upper case"),
 "C02D": ("C02", "Hyperlane controller skips the denom check for synthetic tokens", "a synthetic warp token and synthetic coins on the orbiter account; the deployment under test enables collateral tokens only (app.yaml enabled_tokens: [1]), so the state cannot be reached there"),
 "C03C": ("C03", "commonBeforeTransferHook: the size-check error is kept in a variable that the dust sweep then overwrites", "oversized passthrough payload AND dust of the transferred denom on the orbiter account"),
 "C03D": ("C03", "dispatchForwarding returns only registered errors (errors.As): an unregistered bridge error falls through to success", "a bridge failure reported with a plain Go error (Hyperlane: no enrolled router, after the collateral moved)"),
 "C04C": ("C04", "fixed fees are taken off the top: later basis-point entries are computed on the reduced amount", "list with a fixed-amount entry before a basis-point entry"),
 "C04D": ("C04", "FeesToDistribute.Add helper uses the unchecked Total.Add", ">= 2 fixed-amount entries whose sum needs more than 256 bits"),
 "C05C": ("C05", "HypAttributes recipient length check != 32 relaxed to < 32: longer recipients are truncated by the copy", "Hyperlane recipient longer than 32 bytes (33 bytes, the 64 ASCII bytes of the hex text)"),
 "C05D": ("C05", "ReplaceDepositForBurn substitutes 32 zero bytes for an empty new destination caller", "MsgReplaceDepositForBurn with an empty new_destination_caller"),
 "C06C": ("C06", "CCTP with-caller branch burns SourceAmount instead of DestinationAmount", "an amount-changing pre-action (fee) and a CCTP forwarding with destination caller"),
 "C06D": ("C06", "fee action computes on SourceAmount instead of the current DestinationAmount", "an amount-changing action before the fee action ([swap, fee])"),
 "C07C": ("C07", "OnRecvPacket runs on its own CacheContext and writes it back only on a success ack, also for packets that are not for the orbiter", "a packet NOT for the orbiter that ICS-20 refuses: the events ICS-20 emitted for the refusal (fungible_token_packet success=false, re-emitted by core as ibccallbackerror-*) are lost"),
 "C07D": ("C07", "the not-ICS-20 data error wraps the codec error instead of the pass-through sentinel", "packet data that is not ICS-20 JSON on a channel behind the orbiter middleware"),
 "C08C": ("C08", "in-memory cache of paused protocols in the Forwarder object", "a pause/unpause whose writes are discarded (failed transaction, branch), then transfers or queries on committed state"),
 "C08D": ("C08", "GetAllPausedCrossChainIDs through CollectionPaginate with a nil request (default limit 100)", "more than 100 paused cross-chain ids, then genesis export / the unpaginated listing"),
 "C09C": ("C09", "executor InitGenesis skips paused action ids that are not in ascending order", "genesis document with paused_action_ids [ACTION_SWAP, ACTION_FEE]"),
 "C09D": ("C09", "IsActionPaused walks the whole set and keeps only the result for the last key", ">= 2 actions paused, query or transfer for the one with the lower id"),
 "C10C": ("C10", "cross-chain pause/unpause with an empty id list is routed to the protocol-level handler through an internal helper", "MsgPauseCrossChains / MsgUnpauseCrossChains with no counterparty ids (authority-signed: pauses the whole protocol; the helper re-checks nothing)"),
 "C10D": ("C10", "empty authority accepted by ProvideModule and validateKeeperInputs", "a keeper built without an authority: the empty signer then equals the configured authority"),
 "C11C": ("C11", "dust sweep adds a telemetry counter from coin.Amount.Int64()", "dust >= 2^63 of the transferred denom on the orbiter account (Int64 panics)"),
 "C11D": ("C11", "forwarder precondition compares ALL balances of the orbiter account with the expected coin", "dust of a denom OTHER than the transferred one on the orbiter account"),
 "C12C": ("C12", "UpdateStats moved into a defer keyed on an err variable that the actions step shadows", "a transfer refused by a pre-action (fee >= amount, paused fee action); visible at dispatcher level, masked on the IBC path by the revert of error acknowledgements"),
 "C12D": ("C12", "GetAllDispatchedAmounts through CollectionPaginate with a nil request (default limit 100)", "more than 100 (source, destination, denom) entries, then genesis export and re-import"),
 "C13C": ("C13", "AmountDispatched.IsPositive computed on incoming+outgoing (unchecked Add)", "an entry with incoming + outgoing >= 2^256, then the direct lookup"),
 "C13D": ("C13", "page-request normalisation drops Reverse on key-continuation pages", "reverse traversal with a next key and more entries than the page size"),
 "C14C": ("C14", "revert of the BlockedAddr guard in the fee action (fix 545e35d)", "fee to a bank-blocked address whose module account does not exist yet, then any access to that module account"),
 "C14D": ("C14", "revert of fix 8e8ecf9: receiver compared by spelling", "receiver = upper-case spelling of the orbiter address"),
 "C15C": ("C15", "JSONParser keeps its root-level decode map between calls", "history on one parser: a JSON-object memo with a root key other than 'orbiter', then a valid orbiter memo"),
 "C15D": ("C15", "root-level decode through a streaming json.Decoder (first value only)", "valid orbiter object followed by more non-whitespace content"),
 "C16C": ("C16", "RecoverNativeDenom failure is wrapped as ErrNoOrbiterPacket (pass-through)", "packet for the orbiter with a valid payload and a token that is not native (foreign coin, other channel prefix, longer trace)"),
 "C16D": ("C16", "CCTP controller burns the constant 'uusdc' instead of the credited denom", "returning non-USDC native coin + CCTP forwarding + orbiter account already holding that much uusdc"),
 "C17C": ("C17", "same shape as C08D (independently written): export of paused cross-chain ids through CollectionPaginate(nil)", "more than 100 paused cross-chain ids at export"),
 "C17D": ("C17", "in-memory copy of the passthrough size limit, refreshed only by SetParams", "params written by InitGenesis or on a discarded branch; later packets on another state"),
 "C18C": ("C18", "in-memory cache of the last params written", "UpdateParams on a context that is discarded (failed transaction / simulation), then a packet on committed state"),
 "C18D": ("C18", "dust sweep returns before the size check when dust is present", "oversized passthrough payload AND dust of the transferred denom on the orbiter account"),
 "C19C": ("C19", "in-memory params cache filled on first read", "two nodes that read or write params at different times (restart, discarded context): different verdict for the same block"),
 "C19D": ("C19", "fee recipients merged through a Go map: payment order follows map iteration", "fee list with a repeated recipient and >= 2 distinct recipients (event order differs between executions)"),
 "C20C": ("C20", "Forwarder.Pause silently drops malformed ids from a batch", "mixed batch with at least one valid and one malformed id ([\"7\",\"05\"])"),
 "C20D": ("C20", "DispatchCountEntry.Validate validates the source id twice, never the destination id", "genesis with a dispatched_counts entry whose CCTP/Hyperlane destination id is not canonical; visible after import at export/query"),
}
# round 3: changes steered to code that rounds 1-2 had not touched (focus areas per property)
M3 = {
 "C01E": ("C01", "HyperlaneController remembers token ids whose origin-denom check passed (in-memory set) and skips the check for them", "token T (denom X) used by an earlier orbiter packet in the same process; orbiter account holds >= amount of X; packet of denom Y names T"),
 "C01F": ("C01", "InternalAttributes.Validate compares the recipient with the module address by spelling (same shape as C02C, independently written)", "internal forwarding to the upper-case spelling of the orbiter address"),
 "C02E": ("C02", "Hyperlane controller forwards DestinationAmount - max_fee when the max fee is in the transferred denom", "Hyperlane payload with a positive max_fee in the transferred denomination"),
 "C02F": ("C02", "warp-server wrapper (NewHyperlaneHandler) caches Token() answers in process memory", "a token created and used on a discarded branch; the next committed token gets the same id with another denom; orbiter account holds that denom; packet of the first denom names the id"),
 "C03E": ("C03", "panic guard around ProcessPayload assigns the recovered error to a local variable: a panic below becomes a success acknowledgement", "a panic in a dependency (Hyperlane gas limit ~2^255 with the paymaster hook, before fix 920c189)"),
 "C03F": ("C03", "router.RouteTo helper returns nil when no route exists; executor uses it", "a pre-action with ACTION_SWAP (valid id, no controller registered)"),
 "C04E": ("C04", "FeeAttributes.Validate skips the whole entry validation for a recipient seen before", "fee list with a repeated recipient whose later entry is invalid (0 bps, amount 0 or negative)"),
 "C04F": ("C04", "fee bound checked against the amount left (2*sum >= A) instead of the amount", "valid fee list whose sum is at least half of the amount"),
 "C05E": ("C05", "same shape as C02E (independently written): Hyperlane amount reduced by a same-denom max fee", "Hyperlane payload with a positive max_fee in the transferred denomination"),
 "C05F": ("C05", "CCTPAttributes.Validate (pointer receiver) right-pads short mint recipients to 32 bytes", "CCTP payload with a mint_recipient of 1..31 bytes"),
 "C06E": ("C06", "SetDestinationDenom zeroes the destination amount when the denom changes", "a denomination-changing controller that sets the amount before the denom, or only the denom"),
 "C06F": ("C06", "dispatchActions wraps the outer (nil) err: a failing action ends the loop with success", "an action that fails at execution (fees >= amount, paused action, blocked recipient)"),
 "C07E": ("C07", "OnRecvPacket calls ack.Success() on the wrapped application's result for non-orbiter packets too", "wrapped application that acknowledges asynchronously (nil acknowledgement, as packet-forward-middleware does)"),
 "C07F": ("C07", "memo length guard (32768) before the receiver classification, with a non-sentinel error", "packet not for the orbiter with a memo of more than 32768 bytes"),
 "C08E": ("C08", "SetUnpausedProtocol also clears every paused counterparty of the protocol", "pause (P,c), pause P, unpause P"),
 "C08F": ("C08", "PausedCrossChains query rebuilds the page request without the key", "more paused counterparties than the page limit and a request with pagination.key"),
 "C09E": ("C09", "executor ExportGenesis probes ids with an off-by-one loop bound: the highest action id is never exported", "ACTION_SWAP paused, then export and re-import"),
 "C09F": ("C09", "id validation removed from the setters and the message server looks the name up in the raw enum map", "MsgPauseAction{ActionId: \"ACTION_UNSUPPORTED\"}: key 0 is stored, the paused-set query and the export fail"),
 "C10E": ("C10", "RequireAuthority compares decoded bech32 bytes, ignoring the prefix", "signer = the authority's bytes under another prefix (cosmos1..., noblevaloper1...) or in upper case"),
 "C10F": ("C10", "UnpauseCrossChains limit check uses >= (pause keeps >)", "authority unpauses exactly 100 ids in one message"),
 "C11E": ("C11", "sweep through SendCoinsFromModuleToAccount to the (bank-blocked) dust collector address", "dust of the transferred denom and the real bank keeper with the dust collector on the blocked list"),
 "C11F": ("C11", "sweep skipped when the dust equals the transfer coin", "dust of exactly the amount of the incoming transfer"),
 "C12E": ("C12", "updateDispatchedAmount fast path for untouched transfers sets outgoing = incoming", "a transfer with a fee, later a transfer without fee on the same route and denom"),
 "C12F": ("C12", "the count is updated before the amounts in UpdateStats", "totals at the 256-bit limit: the amounts update fails (swallowed), the count has already moved"),
 "C13E": ("C13", "listing responses cut to 100 entries after the SDK built the page", "more than 100 matching entries and an explicit limit above 100"),
 "C13F": ("C13", "ensureTotal fills Total with the page length when the SDK left it 0", "count_total together with a page key"),
 "C14E": ("C14", "error wrap in the Hyperlane controller formats hookAddrPtr.String() on a nil pointer", "Hyperlane payload without custom hook whose RemoteTransfer fails (unenrolled domain, unknown token)"),
 "C14F": ("C14", "dispatchForwarding wraps the outer (nil) err: forwarding errors are logged and dropped", "payload that parses and validates structurally but whose forwarding is refused later (bad attributes, paused, no controller)"),
 "C15E": ("C15", "distinct-id check with slices.Compact on the unsorted ids (adjacent repeats only)", ">= 3 pre-actions with a non-adjacent repeat ([FEE, SWAP, FEE])"),
 "C15F": ("C15", "Payload.Validate no longer calls Action.Validate (nil attributes check)", "pre-action without attributes ({\"id\":\"ACTION_FEE\"})"),
 "C16E": ("C16", "GetICS20PacketData also requires sdk.ValidateDenom: failures become the pass-through sentinel", "orbiter packet whose non-native denom is legal for ICS-20 but not an SDK denom (2-char base, leading digit, > 128 chars)"),
 "C16F": ("C16", "same shape as C02D (independently written): denom check skipped for synthetic warp tokens", "synthetic warp token (cannot be created in the deployment under test)"),
 "C17E": ("C17", "forwarder InitGenesis skips paused counterparties whose protocol was just paused", "state with (P,c) and P both paused, export, re-import"),
 "C17F": ("C17", "adapter genesis validation rejects limits above 32768, UpdateParams does not", "UpdateParams with a limit above 32768, then export"),
 "C18E": ("C18", "adapter InitGenesis returns early when the params item already exists", "InitGenesis over a store that already holds parameters (not reachable: a chain runs InitGenesis once, on an empty store)"),
 "C18F": ("C18", "GetParams validates (<= MaxInt32) and returns zero params on failure; UpdateParams does not validate", "UpdateParams with a limit >= 2^31, then any non-empty passthrough"),
 "C19E": ("C19", "BuildDenomDispatchedAmounts returns a map: the order of the two updates of a swapped transfer follows map iteration", "denomination-changing action and a total near 2^256-1 (one update fails, whether the other was written varies)"),
 "C19F": ("C19", "oneof guard (fix 4f3e132) only knows the proto names of the members, not the camelCase ones", "FeeInfo with basisPoints (camelCase) and amount both set"),
 "C20E": ("C20", "HypAttributes.CounterpartyID formats the domain as a signed 32-bit number", "Hyperlane domain >= 2^31"),
 "C20F": ("C20", "ValidateCounterpartyID validates a TrimSpace'd copy, callers keep the raw string", "counterparty id with leading/trailing white space (\"5 \", \" 5\", \"5\\n\")"),
}
# round 4: free choice of code site, trigger kinds not used before
M4 = {
 "C01G": ("C01", "GetICS20PacketData decodes with encoding/json instead of the transfer codec: data followed by more bytes is 'not ICS-20' (pass-through sentinel)", "orbiter packet whose data has non-white-space bytes after the JSON object (ICS-20 and blockibc ignore them)"),
 "C01H": ("C01", "Forwarder.HandlePacket recovers controller panics into a local err (no named result): a panic becomes success", "a panic inside a bridge module during forwarding"),
 "C02G": ("C02", "same shape as C01B (independently written): memo without the orbiter key returns the pass-through sentinel", "receiver = orbiter and a one-key JSON memo other than 'orbiter'"),
 "C02H": ("C02", "fee bound GTE -> GT together with TransferAttributes.Validate accepting a zero destination amount", "fees equal to the amount on a Hyperlane route (the warp module accepts a zero amount)"),
 "C03G": ("C03", "same shape as C16C (independently written): RecoverNativeDenom error wrapped as the pass-through sentinel", "orbiter packet with a token that is not a returning native coin"),
 "C03H": ("C03", "merged condition in the fee controller returns the nil err when fees >= amount: the fee step is skipped silently", "fee total at or above the amount"),
 "C04G": ("C04", "64-bit fast path in ComputeFeeAmount: A*bps computed in uint64 wraps", "A <= 2^64-1 and A*bps >= 2^64 (10^18 at 30 bps)"),
 "C04H": ("C04", "FeeInfo.Validate decodes TrimSpace(recipient); the use site decodes the raw string and ignores the error", "fee recipient = valid address padded with white space: the fee goes to the empty address"),
 "C05G": ("C05", "same shape as C02D / C16F: denom check skipped for synthetic warp tokens", "synthetic warp token (cannot exist in the deployment under test)"),
 "C05H": ("C05", "internal recipient decoded with bech32.DecodeAndConvert (any prefix) and re-encoded for MsgSend", "internal recipient with a valid foreign prefix (cosmos1..., osmo1...)"),
 "C06G": ("C06", "same shape as C02E / C05E: Hyperlane amount reduced by a same-denom max fee", "Hyperlane payload with positive max_fee in the transferred denom"),
 "C06H": ("C06", "same shape as C15E: distinct-id check with slices.Compact on unsorted ids", "[FEE, SWAP, FEE]"),
 "C07G": ("C07", "defer/recover over the whole of OnRecvPacket turns panics into error acknowledgements, also on the pass-through path", "packet not for the orbiter on which the wrapped application panics (ICS-20 escrow accounting underflow)"),
 "C07H": ("C07", "ParsePacket parses the memo before the receiver check and treats any parseable payload as an orbiter packet", "transfer to a normal account whose memo is a valid orbiter payload"),
 "C08G": ("C08", "blank batch entries are dropped; the empty list then means the whole protocol", "Pause/UnpauseCrossChains with [\"\"] or [\"\", \"7\"]"),
 "C08H": ("C08", "isInteger rewritten with ParseInt(…, 32): domains >= 2^31 are not identifiers any more", "CCTP / Hyperlane domain >= 2^31 in a pause message, query or transfer"),
 "C09G": ("C09", "dispatcher skips actions whose attributes encode to zero bytes", "ACTION_FEE paused and a fee action without entries (fees_info [] / absent / null)"),
 "C09H": ("C09", "executor looks the controller up before the pause check; dispatcher swallows ErrNotFound from actions", "payload with ACTION_SWAP (no controller wired), paused or not"),
 "C10G": ("C10", "RequireAuthority returns ErrInvalidAddress for blank signers; executor handlers only act on errors.Is(err, ErrUnauthorized)", "MsgPauseAction / MsgUnpauseAction with an empty or white-space signer"),
 "C10H": ("C10", "forwarder message server resolves the CCTP controller once at construction (before the application injects controllers)", "authority-signed MsgReplaceDepositForBurn in the real application"),
 "C11G": ("C11", "dust sweep gated by IsSendEnabledCoins", "sends of the transferred coin disabled in the bank, dust present, CCTP / Hyperlane route"),
 "C11H": ("C11", "in-memory 'cleared at height' memo per denomination in the adapter", "second orbiter packet of a denomination at the same height with dust present (deposited in between, or restored by a failed packet)"),
 "C12G": ("C12", "BuildDenomDispatchedAmounts refuses destination > source before the same-denom branch; UpdateStats error is swallowed", "denomination-changing action that returns more units than it took"),
 "C12H": ("C12", "denom lower-cased (and trimmed) in the amounts storage key", "two denominations differing in letter case on one route, or any denomination with upper-case letters"),
 "C13G": ("C13", "same shape as C17A / C20B: ParseCrossChainID with strings.Split", "internal counterparty containing ':' (genesis only)"),
 "C13H": ("C13", "direct amounts lookup decides existence from the counts collection (keyed by route only)", "used route queried for a denomination never dispatched on it"),
 "C14G": ("C14", "simapp/app.yaml: dust collector removed from module_account_permissions", "dust of the packet's denomination on the orbiter account: the sweep panics"),
 "C14H": ("C14", "Hyperlane custom hook id only bounded from above", "custom_hook_id of 1..31 bytes: slice-to-array conversion panics"),
 "C15G": ("C15", "oneof guard ignores members whose value is null (jsonpb still installs them)", "FeeInfo naming both members, one of them null"),
 "C15H": ("C15", "same shape as C19F: oneof guard without the camelCase names", "basisPoints + amount"),
 "C16G": ("C16", "same shape as C04C: fixed fees shrink the base of later basis-point fees", "[fixed, bps] fee list"),
 "C16H": ("C16", "same shape as C01A: balance precondition Equal -> not less than", "fee whose recipient is the orbiter account"),
 "C17G": ("C17", "GenesisState.Validate skips a nil dispatcher section; InitGenesis does not", "genesis document without dispatcher_genesis (or null)"),
 "C17H": ("C17", "executor genesis duplicate check with slices.Compact on the unsorted list", "paused_action_ids [FEE, SWAP, FEE]"),
 "C18G": ("C18", "size measured with utf8.RuneCount instead of len", "limit > 0 and an oversized payload made of valid multi-byte UTF-8 text"),
 "C18H": ("C18", "AdaptPacket drops the passthrough payload of CCTP forwardings before the size check", "oversized passthrough on a CCTP route"),
 "C19G": ("C19", "ActionIDs / ProtocolIDs queries delete entry 0 from the process-wide generated enum tables; Validate consults the table first", "node that served the query, then a packet with protocol_id / action id 0: another (unregistered) error is committed"),
 "C19H": ("C19", "statistics update skipped when the block time is more than an hour behind the wall clock", "the same block executed live and replayed later"),
 "C20G": ("C20", "PauseCrossChains ignores ErrAlreadySet from the batch loop (which stops at the first failure)", "batch in which an id paused before precedes new ids"),
 "C20H": ("C20", "same shape as C08B: pauseCrossChains is a silent no-op while the protocol is paused", "pause protocol, pause ids, unpause protocol, transfer"),
}
M5 = {
 "C01I": ("C01", "same shape as C02E / C05E / C06G (independently written): Hyperlane forwards DestinationAmount - max_fee when the max fee is in the transferred denom", "Hyperlane payload with a positive max_fee in the transferred denomination and hooks that charge less"),
 "C02I": ("C02", "same shape as C01D (independently written): DispatchPayload runs forwarding + statistics on a CacheContext that is dropped when UpdateStats fails", "a route whose statistics cannot be updated (count at 2^64-1 or totals near 2^256-1, from genesis or a long history), then a transfer"),
 "C03I": ("C03", "same shape as C01D / C02I (independently written): forwarding on a CacheContext written only when UpdateStats succeeds", "statistics of the route at the representation limit; fees of the pre-actions are kept, the funds never leave"),
 "C04I": ("C04", "MergeFeesInfo: fee entries of the same type paying the same recipient are merged before the computation; basis points are summed", "the same recipient in >= 2 basis-point entries and an amount whose fractional parts carry (A=15000, 1 bps twice pays 3 instead of 2)"),
 "C05I": ("C05", "HyperlaneController fills a MsgRemoteTransfer kept in a controller field; CustomHookId is set only when the payload names a hook and never cleared", "a Hyperlane payload with custom_hook_id (even refused or reverted), then one without: the second request carries the first packet's hook"),
 "C06I": ("C06", "validateInitialConditions refuses only a LOWER balance and otherwise overwrites the destination amount with the live module balance", "module balance above the running amount: a fee entry paid to the orbiter account itself, or dust of the denomination a swap produces"),
 "C07I": ("C07", "ParsePacket refuses packets whose receiver decodes to the dust collector sub-account with a non-sentinel error", "ICS-20 packet (any payload) whose receiver is the orbiter/dust_collector module account: not the orbiter account, yet answered by the middleware"),
 "C08I": ("C08", "validatePacket runs the pause check on the SOURCE (protocol, counterparty) of the transfer as well", "PauseProtocol(PROTOCOL_IBC) or PauseCrossChains(IBC, [arrival channel]): transfers to unpaused destinations are refused"),
 "C09I": ("C09", "paused actions become a Map[int32,bool]; unpause stores false instead of removing; the list query and the export iterate over keys", "pause then unpause an action, then the PausedActions query or export / re-import"),
 "C10I": ("C10", "in-memory mirror (sync.Map) of the paused-action set, updated right after the store write", "authority-signed Pause/UnpauseAction on a context that is discarded, then the same valid message on committed state fails"),
 "C11I": ("C11", "the dust sweep is skipped when the forwarding protocol is PROTOCOL_INTERNAL", "internal route while the orbiter account holds any amount of the transferred denomination: every such transfer is refused"),
 "C12I": ("C12", "in-memory write-through map of the last counter per route; updateDispatchedCounts reads the store only on a miss", "a dispatch that reaches the statistics on a discarded branch (simulation, failed multi-message tx), then a kept transfer on the same route"),
 "C13I": ("C13", "generic prefix pagination helper strips the encoded protocol prefix from NextKey although the SDK already did", "by-destination listing with next-keys where a later page starts at an entry whose SOURCE protocol equals the listed destination protocol (genesis-only routes)"),
 "C14I": ("C14", "validateAmount trims white space before converting; ComputeFeesToDistribute converts the raw string and ignores ok: nil Int dereference", "fixed fee amount padded with white space (\" 100\", \"100\\n\", NBSP)"),
 "C15I": ("C15", "IBCParser.ParsePayload pre-filter: bytes.TrimSpace (Unicode white space) and first/last byte must be { }", "valid orbiter memo padded with VT, FF, NEL, NBSP, U+2028, U+3000: not a JSON document, yet accepted"),
 "C16I": ("C16", "same shape as C01I / C02E (independently written; transfer attributes left untouched so precondition and statistics still see the full amount)", "Hyperlane route with a positive max_fee in the credited denomination"),
 "C17I": ("C17", "dispatcher genesis validation rejects repeated entries keyed by route only (not route + denom); InitGenesis calls it", "a route that dispatched two denominations, then export: the export fails validation"),
 "C18I": ("C18", "the size check is applied to passthrough payload + hex-decoded Hyperlane custom_hook_metadata", "Hyperlane payload with custom_hook_metadata whose passthrough is within the limit (e.g. empty, default params)"),
 "C19I": ("C19", "FeesToDistribute objects from a package-level sync.Pool; the error returns of ComputeFeesToDistribute put the object back without clearing it", "a fee computation that fails midway (fixed fees summing past 2^256 after a positive entry), then an ordinary fee action on the same P before the pool is emptied"),
 "C20I": ("C20", "process-wide memo (sync.Map) of validated (protocol, id) pairs filled with LoadOrStore before the check", "the same non-canonical pair submitted twice in one process: refused once, accepted afterwards"),
}
def fired(path):
    out, kinds = [], {}
    if os.path.exists(path):
        for line in open(path):
            m = re.match(r"(C\d\d) rc=(\d+) ?(.*)", line.strip())
            if m and m.group(2) == "1":
                out.append(m.group(1)); kinds[m.group(1)] = m.group(3).strip()
    return out, kinds
for mid, (prop, change, needs) in list(M2.items()) + list(M3.items()) + list(M4.items()) + list(M5.items()):
    first, _ = fired(f"/verif/seeded/{mid}/result_first.txt")
    M[mid] = (prop, change, needs, first)
for mid, (prop, change, needs, first) in sorted(M.items()):
    d = f"/verif/seeded/{mid}"
    caught = []
    kinds = {}
    rp = os.path.join(d, "result.txt")
    if os.path.exists(rp):
        for line in open(rp):
            m = re.match(r"(C\d\d) rc=(\d+) ?(.*)", line.strip())
            if m and m.group(2) == "1":
                caught.append(m.group(1))
                kinds[m.group(1)] = m.group(3).strip()
    meta = {
        "id": mid,
        "breaks_property": prop,
        "change": change,
        "needs_to_manifest": needs,
        "written_by": "fresh sub-agent given only the property text and a scratch worktree (nothing from /verif)",
        "confirmed": "tools/verify_mutant.sh in the scratch worktree: git apply ok; go build ./... (root and simapp) ok; go test -vet=off -count=1 ./... passes with the change; demonstration test passes on the clean tree and fails with the change",
        "ran": "tools/r5_run.sh -> tools/run_mutant_lab.sh: the change applied to a scratch checkout of /repo HEAD wired to a copy of /verif (tools/mutlab.sh); because of the time limit of round 5 only the check of the property itself and the 2-3 checks of the most closely related properties were run (the list is in tools/r5_run.sh), quick tier, seed 1; checkout restored" if mid[-1] == "I" else "tools/run_mutant.sh (git -C /repo apply, bin/check <all 20> quick, git -C /repo checkout -- .)" if mid[-1] in "AB" else "tools/run_mutant_lab.sh: the change applied to a scratch checkout of /repo HEAD wired to a copy of /verif (tools/mutlab.sh), bin/check <all 20> quick there, checkout restored",
        "round": {"A": 1, "B": 1, "C": 2, "D": 2, "E": 3, "F": 3, "I": 5}.get(mid[-1], 4),
        "detected_by_first_round": first,
        "detected_by_now": caught,
        "violation_classes_now": kinds,
        "own_property_check_fires": prop in caught,
    }
    json.dump(meta, open(os.path.join(d, "meta.json"), "w"), indent=1)
rows = ["| id | property | change | needs | first | now |", "|----|----------|--------|-------|-------------|-----|"]
for mid, (prop, change, needs, first) in sorted(M.items()):
    meta = json.load(open(f"/verif/seeded/{mid}/meta.json"))
    rows.append(f"| {mid} | {prop} | {change} | {needs} | {' '.join(first) or '—'} | {' '.join(meta['detected_by_now']) or '—'} |")
open("/verif/seeded/TABLE.md", "w").write("\n".join(rows) + "\n")
# embed in DESIGN.md between the markers
dp = "/verif/DESIGN.md"
ds = open(dp).read()
b, e_ = "<!-- SEEDED-TABLE-BEGIN -->", "<!-- SEEDED-TABLE-END -->"
if b in ds and e_ in ds:
    ds = ds[:ds.index(b) + len(b)] + "\n" + "\n".join(rows) + "\n" + ds[ds.index(e_):]
    open(dp, "w").write(ds)
print("\n".join(rows[:5]))
