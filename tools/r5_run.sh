#!/bin/bash
# usage: tools/r5_run.sh <lab dir> <out name> <Cxx>...   confirm each sub-agent deliverable, then run the quick checks on it in the lab
# (own property first, then the related ones listed below; "all" as first id after <out name> runs all 20)
LAB="$1"; OUT="$2"; shift 2
exec 8>"$LAB.lock"; flock 8
ALL=""; if [ "$1" = "all" ]; then ALL=1; shift; fi
declare -A REL=( [C01]="C01 C02 C05 C11" [C02]="C02 C01 C12 C03" [C03]="C03 C01 C14" [C04]="C04 C02 C19" [C05]="C05 C01 C03 C11" [C06]="C06 C01 C11 C03"
 [C07]="C07 C01 C14" [C08]="C08 C09 C12" [C09]="C09 C03 C08" [C10]="C10 C09 C19 C17" [C11]="C11 C01 C17 C18" [C12]="C12 C19 C17 C13" [C13]="C13 C12 C17"
 [C14]="C14 C04 C15" [C15]="C15 C14 C19" [C16]="C16 C02 C05 C01" [C17]="C17 C12 C13" [C18]="C18 C05 C11 C14" [C19]="C19 C04 C15" [C20]="C20 C08 C17" )
for P in "$@"; do
  [ -d /verif/seeded/${P}I ] || /verif/tools/r5_take.sh $P I
  D=/verif/seeded/${P}I
  [ -d "$D" ] || continue
  IDS="${REL[$P]}"; [ -n "$ALL" ] && IDS=""
  /verif/tools/run_mutant_lab.sh "$LAB" "$D/patch.diff" $IDS > "$D/$OUT" 2>&1
  echo "$P: $(grep -v 'rc=0' "$D/$OUT" | tr '\n' ';' | cut -c1-700)"
  find /root/.cache/go-build -type f -mmin +100 -delete 2>/dev/null
done
