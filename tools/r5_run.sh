#!/bin/bash
# usage: tools/r5_run.sh <lab dir> <out name> <Cxx>...   confirm each sub-agent deliverable, then run all quick checks on it in the lab
LAB="$1"; OUT="$2"; shift 2
exec 8>"$LAB.lock"; flock 8
for P in "$@"; do
  [ -d /verif/seeded/${P}I ] || /verif/tools/r5_take.sh $P I
  D=/verif/seeded/${P}I
  [ -d "$D" ] || continue
  /verif/tools/run_mutant_lab.sh "$LAB" "$D/patch.diff" > "$D/$OUT" 2>&1
  echo "$P: $(grep -v 'rc=0' "$D/$OUT" | tr '\n' ';' | cut -c1-600)"
  find /root/.cache/go-build -type f -mmin +100 -delete 2>/dev/null
done
