#!/bin/bash
# usage: tools/verify_mutant.sh <worktree> <diff> <demo_test.txt>
# Confirms in the scratch worktree: applies cleanly, builds, existing suite passes, the
# demonstration fails with the change and passes without it. Leaves the worktree clean.
set -u
WT="$1"; DIFF="$2"; DEMO="$3"
export GOPROXY=off GOFLAGS=
cd "$WT" || exit 2
L=$(mktemp -d /tmp/vm.XXXXXX); trap 'rm -rf "$L"' EXIT
git checkout -q -- . ; git clean -fdq -e '*.diff' -e '*.txt' -e 'mutant*' -e 'demo*' . >/dev/null 2>&1
pkg=$(head -1 "$DEMO" | sed -n 's/^\/\/ *place in: *//p' | tr -d ' \r')
[ -z "$pkg" ] && { echo "NO-PLACE-LINE"; exit 2; }
pkg="${pkg%/}"
tests=$(grep -o '^func Test[A-Za-z0-9_]*' "$DEMO" | sed 's/^func //' | paste -sd'|')
name="zz_demo_$(basename "$DEMO" .txt | tr -c 'a-zA-Z0-9_' '_')_test.go"
# 1. demo on the unmodified tree
cp "$DEMO" "$pkg/$name"
if go test -vet=off -count=1 -run "^($tests)\$" "./$pkg/" >$L/vm_clean.log 2>&1; then echo "demo-on-clean: PASS"; else echo "demo-on-clean: FAIL (should pass)"; tail -15 $L/vm_clean.log; fi
rm -f "$pkg/$name"
# 2. apply the mutant
if ! git apply "$DIFF"; then echo "APPLY-FAILED"; exit 2; fi
if go build ./... >$L/vm_build.log 2>&1 && (cd simapp && go build ./... >>$L/vm_build.log 2>&1); then echo "build: OK"; else echo "build: FAILED"; tail -5 $L/vm_build.log; fi
if go test -vet=off -count=1 ./... >$L/vm_suite.log 2>&1; then echo "suite-with-mutant: PASS"; else echo "suite-with-mutant: FAIL"; grep -E "^(---|FAIL|ok)" $L/vm_suite.log | grep -v "^ok" | head; fi
cp "$DEMO" "$pkg/$name"
if go test -vet=off -count=1 -run "^($tests)\$" "./$pkg/" >$L/vm_mut.log 2>&1; then echo "demo-on-mutant: PASS (should fail)"; else echo "demo-on-mutant: FAIL (as expected)"; fi
rm -f "$pkg/$name"
git checkout -q -- .
