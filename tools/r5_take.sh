#!/bin/bash
# usage: tools/r5_take.sh <Cxx> <letter>   verifies the sub-agent's deliverables in /tmp/wt/<Cxx> and, when all
# four confirmations hold, copies them to /verif/seeded/<Cxx><letter>/
P="$1"; L="$2"; WT=/tmp/wt/$P
[ -f "$WT/mutant.diff" ] && [ -f "$WT/demo_test.go.txt" ] || { echo "$P: deliverables missing"; exit 2; }
cp "$WT/mutant.diff" /tmp/r5_$P.diff; cp "$WT/demo_test.go.txt" /tmp/r5_$P.demo.txt; cp "$WT/REPORT.md" /tmp/r5_$P.report.md 2>/dev/null
out=$(/verif/tools/verify_mutant.sh "$WT" /tmp/r5_$P.diff /tmp/r5_$P.demo.txt 2>&1)
echo "$P: $(echo "$out" | tr '\n' ';')"
if echo "$out" | grep -q "demo-on-clean: PASS" && echo "$out" | grep -q "build: OK" && echo "$out" | grep -q "suite-with-mutant: PASS" && echo "$out" | grep -q "demo-on-mutant: FAIL (as expected)"; then
  D=/verif/seeded/$P$L; mkdir -p "$D"
  cp /tmp/r5_$P.diff "$D/patch.diff"; cp /tmp/r5_$P.demo.txt "$D/demo_test.go.txt"; cp /tmp/r5_$P.report.md "$D/report.md" 2>/dev/null
  echo "$out" > "$D/confirmed.txt"
  echo "$P: KEPT as $D"
else
  echo "$P: NOT CONFIRMED"
fi
rm -f /tmp/r5_$P.diff /tmp/r5_$P.demo.txt /tmp/r5_$P.report.md
