#!/bin/bash
# usage: lab_sel.sh <lab> "<id>:<checks...>" ...
LAB=$1; shift
for spec in "$@"; do
  id=${spec%%:*}; checks=${spec#*:}
  /verif/tools/run_mutant_lab.sh $LAB /verif/seeded/$id/patch.diff $checks > /tmp/sel_$id.txt 2>&1
  echo "$id: $(grep 'rc=' /tmp/sel_$id.txt | tr '\n' ';')"
done
