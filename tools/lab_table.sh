#!/bin/bash
# usage: lab_table.sh <lab> <ids...>
LAB=$1; shift
for id in "$@"; do
  /verif/tools/run_mutant_lab.sh $LAB /verif/seeded/$id/patch.diff > /verif/seeded/$id/result.txt 2>&1
  echo "$id: $(grep -c 'rc=1' /verif/seeded/$id/result.txt) fire: $(grep 'rc=1' /verif/seeded/$id/result.txt | cut -d' ' -f1 | tr '\n' ' ') | inconclusive: $(grep 'rc=2' /verif/seeded/$id/result.txt | cut -d' ' -f1 | tr '\n' ' ')"
  # keep the shared Go build cache from filling the disk (every mutant links two new binaries)
  find /root/.cache/go-build -type f -mmin +100 -size +1M -delete 2>/dev/null
done
