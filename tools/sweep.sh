#!/bin/bash
# usage: tools/sweep.sh <tier> <seed>...   runs every check for every seed, prints one line per run
tier="$1"; shift
for seed in "$@"; do
  for id in $(seq -f "C%02g" 1 20); do
    out=$(VERIF_SEED=$seed bin/check "$id" "$tier" 2>&1); rc=$?
    echo "seed=$seed $id rc=$rc $(echo "$out" | tail -1 | cut -c1-160)"
    if [ $rc -ne 0 ]; then echo "$out" | grep -E "VIOLATION|INCONCLUSIVE|kind=" | cut -c1-400 | head -8; fi
  done
done
