#!/bin/bash
# Runs every seeded change against every quick check; writes seeded/<id>/result.txt
cd /verif
for d in seeded/*/; do
  id=$(basename $d)
  tools/run_mutant.sh /verif/${d}patch.diff > $d/result.txt 2>&1
  echo "$id: $(grep -c 'rc=1' $d/result.txt) check(s) fire: $(grep 'rc=1' $d/result.txt | cut -d' ' -f1 | tr '\n' ' ')"
done
