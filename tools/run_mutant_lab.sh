#!/bin/bash
# usage: tools/run_mutant_lab.sh <lab dir> <diff> [check ids...]
# Applies the change to the lab's checkout, runs the lab's quick checks, restores the checkout.
set -u
LAB="$1"; DIFF="$2"; shift 2
IDS="${*:-$(seq -f 'C%02g' 1 20)}"
R="$LAB/repo"
git -C "$R" checkout -q -- . ; git -C "$R" clean -fdq >/dev/null 2>&1
restore() { git -C "$R" checkout -q -- . ; git -C "$R" clean -fdq >/dev/null 2>&1; }
trap restore EXIT
git -C "$R" apply "$DIFF" || { echo "APPLY-FAILED"; exit 2; }
for id in $IDS; do
  out=$("$LAB/verif/bin/check" "$id" quick 2>&1); rc=$?
  kinds=$(echo "$out" | grep -o "kind=[^ ]*" | sort -u | head -4 | tr '\n' ' ')
  echo "$id rc=$rc $kinds"
done
