#!/usr/bin/env python3
"""Regenerates /verif/MANIFEST.json from the table below (kept next to the checks it describes)."""
import json, subprocess, sys

CHECKS = {
 "C01": ("exploration", "ledger invariant on the orbiter account per packet (runtime monitor over hostile workloads)", "5.C01",
         "Every generated packet is executed through the real IBC core handler of the real application; the monitor reads the full bank ledger before/after and checks R1-R4 (no growth on success, whole credit gone, well-formed error ack with no effects, ack never nil), plus aftermath probes on the state each hostile packet leaves. Held on the executions listed in the evidence; sampling, not proof."),
 "C02": ("exploration", "exact full-ledger and supply delta vs reference model (runtime monitor)", "5.C02",
         "For every successful transfer the delta over all accounts, denoms and supply must equal the model's (escrow -A, fee credits, route sink or burn, dust sweep). Random cases over 1..2^256-1, a complete boundary grid and accumulating histories."),
 "C04": ("exploration", "big-integer fee model vs recipient ledger deltas, end-to-end and on direct calls (runtime monitor)", "5.C04",
         "Three-valued verdict per case (must succeed / must refuse / either) and exact credits; canonical inputs are judged two-sidedly."),
 "C08": ("exploration", "pause-set reference model vs queries, exported genesis and probe transfers after every admin message (runtime monitor over random walks)", "5.C08",
         "Model sets are driven by the same message stream; after every message all queries (all page sizes) and the export must equal the model, failed messages must leave the store digest unchanged, probes to every calibrated destination must be executed iff not paused."),
 "C09": ("exploration", "action-pause reference model vs queries and probe transfers with/without the fee action (runtime monitor over random walks)", "5.C09",
         "As C08 for the executor: a payload with the fee action is executed iff the action is not paused, refused probes move no balance."),
 "C10": ("exploration", "run-time enumeration of Msg RPCs x impostor signers: error, unchanged state digest, no events (runtime monitor)", "5.C10",
         "The RPC surface comes from the protobuf registry of the running binary, so an RPC added later is exercised with reflection-filled bodies; valid bodies signed by the authority must succeed."),
 "C11": ("exploration", "metamorphic twin execution: same packet with empty vs pre-funded orbiter account (runtime differential monitor)", "5.C11",
         "Byte-equal acknowledgement, equal third-party ledger delta, bridge events and statistics delta; dust of the transferred denom ends on the collector, other denoms stay."),
 "C12": ("exploration", "shadow statistics ledger folded from ledger-observed transfers vs exported statistics over long histories (runtime monitor)", "5.C12",
         "Whole-map comparison every 5 operations over mixed histories (H mode and real blocks); per-operation delta check is always on in every other workload."),
 "C13": ("exploration", "every query and pagination walk vs the exported ledger (runtime monitor at history checkpoints)", "5.C13",
         "Multiset equality of forward/reverse/offset/count_total walks for all limits and filters, direct lookups of present keys and absent neighbours."),
 "C14": ("exploration", "recover()/worker-death monitor under systematic structural mutation and random fuzzing of memo, packet data, attributes and envelopes", "5.C14",
         "Every single-point mutation at every JSON node of every template, hostile ICS-20 data, random bytes, attribute extremes, channel-id envelopes; through the bare middleware and the real core handler."),
 "C15": ("exploration", "parser acceptance predicate from the applied mutation, marshal->parse equality, purity under repetition and concurrency (runtime monitor)", "5.C15",
         "Two-sided verdict where the mutation fixes well-formedness; round trip through the module's constructors and through an independently rendered memo."),
 "C18": ("exploration", "parameter reference model vs Params query/export and limit+-1 probe transfers after every update (runtime monitor)", "5.C18",
         "Walks over parameter values incl. unauthorized updates and genesis-set values."),
 "C19": ("exploration", "byte-equality of recorded-history replays across fresh worlds, parallel goroutines and fresh processes (runtime differential monitor)", "5.C19",
         "Acknowledgement bytes, tx results, ordered events, gas, every AppHash, exported state; streams are built from the error corpora so that as many error paths as possible are committed."),
"C03": ("fault_enumeration", "k-th-call fault injection at every wrapped dependency of an alternative keeper over the same stores, and out-of-gas aborts at every gas-consumption point of the receive path on the native wiring (gas meter as failpoint); oracles 'fault fired => error acknowledgement and no surviving effect', 'cut => never a success, nothing left in process memory'", "5.C03",
         "Complete enumeration of single faults (site x k) for 24 payload shapes, through the bare middleware and through the real core handler with the alternative stack installed in the IBC router; natural failures of the real dependencies on the native wiring; one delivery per gas-consumption point (quick: every 6th, thorough: all ~5300) each followed by the fault-free delivery, which must reproduce the reference result; transfers at the statistics representation limit must be complete when acknowledged."),
 "C05": ("exploration", "payload spec vs request recorded at the bridge boundary (alternative keeper) and vs the bridges' typed events (native wiring)", "5.C05",
         "Field-by-field equality for all CCTP / Hyperlane / bank request fields, exactly-one-call counters, complete (protocol id x attribute type) matrix, deposit-replacement message incl. a real attested replace."),
 "C06": ("exploration", "model fold of the action list vs a recording, really swapping test controller registered as ACTION_SWAP plus the recorded bridge request and statistics", "5.C06",
         "Orders over {fee, swap} incl. repeated ids and a registry with only the swap controller; the swap controller must see the running coin, fees are floor on the running coin, the forwarded and recorded coin is the last action's output."),
 "C07": ("exploration", "twin chains with / without the middleware fed the same signed transaction stream (equal AppHash, results, events) and per-packet twin branches (equal ack, events, store digests); every other callback through middleware(recording stub) vs the stub (same single call, arguments, result, events, gas, state)", "5.C07",
         "Differential oracle: the chain without the middleware is the specification for all traffic not addressed to the orbiter, incl. send, acknowledgement and timeout paths; handshake, close, acknowledgement, timeout, send, write-acknowledgement and app-version callbacks with generated arguments around a recording stub application and, for acknowledgements and timeouts, around the real ICS-20 application."),
 "C16": ("exploration", "differential against ICS-20: coin released from escrow (ledger) vs coin forwarded and recorded; one-hop-native predicate on every accepted packet", "5.C16",
         "Denomination grammar x source ends x amount encodings, incl. a genuine two-hop voucher whose ibc/ denom sits in the channel escrow."),
 "C17": ("exploration", "export -> validate -> init -> export equality (document, raw store, probe behaviour) at history checkpoints; accepted-implies-initialisable over generated documents", "5.C17",
         "Wipe-and-reimport on a branch and fresh chains through InitChain; generated documents = all single-point mutations of an exported genesis."),
 "C20": ("exploration", "round trip / injectivity / canonical-form checks on the identifier grammar; pause-then-probe by domain through the real message server", "5.C20",
         "Every spelling of a domain the message server accepts must make the probe transfer to that domain be refused; only one spelling may be accepted."),
}

PENDING = {}

def main():
    checks = []
    for pid in sorted(CHECKS):
        level, technique, ref, text = CHECKS[pid]
        checks.append({
            "property_id": pid,
            "quick_cmd": f"bin/check {pid} quick",
            "thorough_cmd": f"bin/check {pid} thorough",
            "evidence_file": f"/verif/evidence/{pid}.json",
            "replay_cmd_template": "bin/check replay {path}",
            "engine": "orbcheck",
            "level_claimed": {"category": level, "text": text, "design_ref": ref},
            "level_note": "Trusted base: the Go toolchain, the pinned third-party modules (cosmos-sdk, ibc-go, blockibc/fiattokenfactory, noble-cctp, hyperlane-cosmos) as calibrated at world start, the harness' reference model and generators. Verdict = held on the executions counted in the evidence file.",
            "technique": technique,
        })
    all_ids = [f"C{i:02d}" for i in range(1, 21)]
    na = [{"property_id": i, "reason": PENDING.get(i, "check not built yet in this round (engine shared with the other checks); monitoring applies, see DESIGN.md section 5")}
          for i in all_ids if i not in CHECKS]
    m = {
        "version": 1,
        "setup_cmd": "bin/check build",
        "hooks": {
            "guard": "verif",
            "enable": "no source hooks: checks build /verif/harness against /repo's working tree through /verif/go.work; dependencies are wrapped at their constructor-injected interfaces and the exported IBC router",
            "baseline_off_cmd": "cd /repo && go test -vet=off -count=1 ./... && cd /repo/simapp && go test -vet=off -count=1 ./...",
            "source_commits": [],
            "add_only": True,
        },
        "engines": [{
            "name": "orbcheck", "path": "/verif/harness",
            "serves_properties": sorted(CHECKS),
            "kind_free_text": "Go harness: the repository's simapp in-process (MemDB), loop-back IBC channels over 09-localhost, hostile counterparty via stored packet commitments; shard workers in sub-processes; monitors = reference models, conservation/differential oracles over recorded observations",
        }],
        "checks": checks,
        "not_applicable": na,
        "notes": "bin/check rebuilds orbcheck whenever a Go source, go.mod/go.sum or app.yaml under /repo (or the harness) changed. Exit 0 = held on everything explored, 1 = VIOLATION line(s), 2 = INCONCLUSIVE (watchdog, dead worker, too few non-trivial observations). Known findings: /verif/known_findings.json.",
    }
    json.dump(m, open("/verif/MANIFEST.json", "w"), indent=1)
    print("checks:", len(checks), "not_applicable:", len(na))

if __name__ == "__main__":
    main()
