#!/bin/bash
# usage: tools/mutlab.sh <dir>   creates a self-contained scratch lab: <dir>/repo (git worktree of
# /repo HEAD) and <dir>/verif (copy of the framework wired to that checkout), so that seeded changes
# can be applied and checked without touching /repo. Remove with: tools/mutlab.sh --remove <dir>
set -eu
if [ "$1" = "--remove" ]; then
  git -C /repo worktree remove --force "$2/repo" 2>/dev/null || true
  rm -rf "$2"
  exit 0
fi
if [ "$1" = "--sync" ]; then
  D="$2"
  rsync -a --delete --exclude .git --exclude .work --exclude .cache --exclude 'bin/orbcheck*' --exclude evidence --exclude replays --exclude seeded --exclude .repo_dir /verif/ "$D/verif/"
  sed -i "s|/repo|$D/repo|g" "$D/verif/go.work" "$D/verif/harness/go.mod"
  git -C "$D/repo" checkout -q --detach "$(git -C /repo rev-parse HEAD)"
  echo "lab synced: $D"
  exit 0
fi
D="$1"
mkdir -p "$D"
git -C /repo worktree add -q --detach "$D/repo" HEAD
mkdir -p "$D/verif"
rsync -a --exclude .git --exclude .work --exclude .cache --exclude 'bin/orbcheck*' --exclude evidence --exclude replays --exclude seeded /verif/ "$D/verif/"
sed -i "s|/repo|$D/repo|g" "$D/verif/go.work" "$D/verif/harness/go.mod"
echo "$D/repo" > "$D/verif/.repo_dir"
echo "lab ready: $D"
