// Package world builds one real orbiter chain (the repository's simapp) in-process and offers the
// three execution modes of DESIGN.md section 2: T (signed tx in a block), H (message handler on a
// branch of the state) and C (direct IBC callback on a branch).
package world

import (
	"encoding/json"
	"fmt"
	"sort"
	"sync"
	"time"

	abci "github.com/cometbft/cometbft/abci/types"
	cmted25519 "github.com/cometbft/cometbft/crypto/ed25519"
	cmtproto "github.com/cometbft/cometbft/proto/tendermint/types"
	cmttypes "github.com/cometbft/cometbft/types"

	cctptypes "github.com/circlefin/noble-cctp/x/cctp/types"
	ftftypes "github.com/circlefin/noble-fiattokenfactory/x/fiattokenfactory/types"

	"cosmossdk.io/log"
	sdkmath "cosmossdk.io/math"
	dbm "github.com/cosmos/cosmos-db"
	"github.com/cosmos/cosmos-sdk/baseapp"
	"github.com/cosmos/cosmos-sdk/client"
	"github.com/cosmos/cosmos-sdk/codec"
	"github.com/cosmos/cosmos-sdk/crypto/hd"
	"github.com/cosmos/cosmos-sdk/crypto/keys/secp256k1"
	cryptotypes "github.com/cosmos/cosmos-sdk/crypto/types"
	simtestutil "github.com/cosmos/cosmos-sdk/testutil/sims"
	sdk "github.com/cosmos/cosmos-sdk/types"
	authtx "github.com/cosmos/cosmos-sdk/x/auth/tx"
	authtypes "github.com/cosmos/cosmos-sdk/x/auth/types"
	banktypes "github.com/cosmos/cosmos-sdk/x/bank/types"
	ethcrypto "github.com/ethereum/go-ethereum/crypto"

	"github.com/noble-assets/orbiter/v2/simapp"
	orbitertypes "github.com/noble-assets/orbiter/v2/types"
	"github.com/noble-assets/orbiter/v2/types/core"
)

const (
	ChainID = "orbverif-1"

	// AuthorityMnemonic is the mnemonic of the authority configured in simapp/app.yaml.
	AuthorityMnemonic = "occur subway woman achieve deputy rapid museum point usual appear oil blue rate title claw debate flag gallery level object baby winner erase carbon"
	AuthorityAddress  = "noble1zw7vatnx0vla7gzxucgypz0kfr6965akpvzw69"

	USDC  = "uusdc"
	USDN  = "uusdn"
	EURE  = "ueure"
	// UP differs from USDC in letter case only (bank denominations are case-sensitive)
	UP = "uUSDC"
	BIG   = "ubig"
	STAKE = "stake"
)

// BurnLimit is the CCTP per-message burn limit configured in genesis.
var BurnLimit = sdkmath.NewInt(1_000_000_000_000)

var sdkConfigOnce sync.Once

// SetupSDKConfig sets the bech32 prefixes the simapp expects.
func SetupSDKConfig() {
	sdkConfigOnce.Do(func() {
		cfg := sdk.GetConfig()
		cfg.SetBech32PrefixForAccount("noble", "noblepub")
		cfg.SetBech32PrefixForValidator("noblevaloper", "noblevaloperpub")
		cfg.SetBech32PrefixForConsensusNode("noblevalcons", "noblevalconspub")
		cfg.Seal()
	})
}

// Key is an account owned by the harness.
type Key struct {
	Name string
	Priv cryptotypes.PrivKey
	Addr sdk.AccAddress
}

func (k *Key) String() string { return k.Addr.String() }

// Config selects a world variant.
type Config struct {
	// IGP makes the Hyperlane mailbox's required hook an interchain gas paymaster.
	IGP bool
	// NoOrbiter rebuilds the IBC router without the orbiter middleware (twin chain of C07).
	NoOrbiter bool
	// OrbiterGenesis overrides the orbiter module genesis (JSON). nil = default.
	OrbiterGenesis json.RawMessage
	// Channels is the number of loop-back channel pairs (default 2).
	Channels int
	// SkipHyperlane skips the Hyperlane setup transactions (faster worlds).
	SkipHyperlane bool
}

// ChannelPair is a loop-back channel: A is the end the "counterparty chain" packets arrive on
// (Noble side), B the end playing the remote chain.
type ChannelPair struct {
	A, B string
}

// World is one chain.
type World struct {
	App    *simapp.SimApp
	Cdc    codec.Codec
	TxCfg  client.TxConfig
	Cfg    Config
	Height int64
	Time   time.Time

	Keys      map[string]*Key
	Authority *Key
	Val       cmted25519.PrivKey

	Channels []ChannelPair
	Hyp      HypSetup

	Attester *AttesterKey

	forgedSeq uint64
	txCount   int
}

// AttesterKey is the CCTP attester owned by the harness.
type AttesterKey struct {
	Priv   []byte
	PubHex string
}

var userNames = []string{
	"alice", "bob", "carol", "dave", "relayer",
	"fee1", "fee2", "fee3", "fee4", "fee5", "fee6",
	"rcpt1", "rcpt2", "rcpt3", "blocked",
	"ftfowner", "ftfpauser", "ftfblacklister", "ftfmaster",
	"cctpowner", "cctppauser", "cctpattmgr", "cctptokctl",
	"hypowner", "pool",
}

func mkKey(name string) *Key {
	priv := secp256k1.GenPrivKeyFromSecret([]byte("orbverif/key/" + name))
	return &Key{Name: name, Priv: priv, Addr: sdk.AccAddress(priv.PubKey().Address())}
}

func authorityKey() *Key {
	derived, err := hd.Secp256k1.Derive()(AuthorityMnemonic, "", "m/44'/118'/0'/0/0")
	if err != nil {
		panic(err)
	}
	priv := &secp256k1.PrivKey{Key: derived}
	k := &Key{Name: "authority", Priv: priv, Addr: sdk.AccAddress(priv.PubKey().Address())}
	if k.Addr.String() != AuthorityAddress {
		panic("authority key derivation mismatch: " + k.Addr.String())
	}
	return k
}

// MaxUint256 is 2^256-1.
func MaxUint256() sdkmath.Int {
	v, _ := sdkmath.NewIntFromString("115792089237316195423570985008687907853269984665640564039457584007913129639935")
	return v
}

// New builds a world: InitChain, first block, loop-back channels, Hyperlane setup.
func New(cfg Config) (*World, error) {
	SetupSDKConfig()
	if cfg.Channels == 0 {
		cfg.Channels = 2
	}
	app, err := simapp.NewSimApp(log.NewNopLogger(), dbm.NewMemDB(), nil, true, simtestutil.EmptyAppOptions{}, baseapp.SetChainID(ChainID))
	if err != nil {
		return nil, err
	}
	w := &World{
		App:       app,
		Cdc:       app.OrbiterKeeper.Codec(),
		TxCfg:     authtx.NewTxConfig(app.OrbiterKeeper.Codec(), authtx.DefaultSignModes),
		Cfg:       cfg,
		Keys:      map[string]*Key{},
		Time:      time.Date(2026, 1, 1, 0, 0, 0, 0, time.UTC),
		forgedSeq: 1 << 40,
	}
	for _, n := range userNames {
		w.Keys[n] = mkKey(n)
	}
	w.Authority = authorityKey()
	w.Keys["authority"] = w.Authority

	if cfg.NoOrbiter {
		w.installRouterWithoutOrbiter()
	}

	if err := w.initChain(); err != nil {
		return nil, err
	}
	if err := w.openChannels(cfg.Channels); err != nil {
		return nil, err
	}
	if !cfg.SkipHyperlane {
		if err := w.setupHyperlane(); err != nil {
			return nil, err
		}
	}
	return w, nil
}

func (w *World) K(name string) *Key {
	k, ok := w.Keys[name]
	if !ok {
		panic("unknown key " + name)
	}
	return k
}

func (w *World) initChain() (err error) {
	// a module that panics in InitGenesis (refused genesis document) fails the world, not the process
	defer func() {
		if r := recover(); r != nil {
			err = fmt.Errorf("InitChain panicked: %v", r)
		}
	}()
	app := w.App
	cdc := w.Cdc
	genesis := app.DefaultGenesis()

	w.Val = cmted25519.GenPrivKeyFromSecret([]byte("orbverif/validator"))
	valSet := cmttypes.NewValidatorSet([]*cmttypes.Validator{cmttypes.NewValidator(w.Val.PubKey(), 1)})

	names := make([]string, 0, len(w.Keys))
	for n := range w.Keys {
		names = append(names, n)
	}
	sort.Strings(names)

	var accs []authtypes.GenesisAccount
	var balances []banktypes.Balance
	// genAccs[0] is the delegator of the validator.
	for i, n := range append([]string{"alice"}, names...) {
		if i > 0 && n == "alice" {
			continue
		}
		k := w.Keys[n]
		accs = append(accs, authtypes.NewBaseAccount(k.Addr, k.Priv.PubKey(), uint64(len(accs)), 0))
		coins := sdk.NewCoins(sdk.NewCoin(STAKE, sdkmath.NewInt(1_000_000_000)))
		switch n {
		case "alice", "bob", "carol", "dave":
			coins = coins.Add(sdk.NewCoins(
				sdk.NewCoin(USDC, sdkmath.NewInt(1_000_000_000_000_000)),
				sdk.NewCoin(USDN, sdkmath.NewInt(1_000_000_000_000_000)),
				sdk.NewCoin(EURE, sdkmath.NewInt(1_000_000_000_000_000)),
			)...)
			if n == "alice" {
				coins = coins.Add(sdk.NewCoins(
					sdk.NewCoin(UP, sdkmath.NewInt(1_000_000_000_000_000)),
					sdk.NewCoin(BIG, MaxUint256()),
					sdk.NewCoin(USDC, sdkmath.NewInt(9_000_000_000_000_000)),
					sdk.NewCoin(USDN, sdkmath.NewInt(9_000_000_000_000_000)),
				)...)
			}
		case "pool":
			coins = coins.Add(sdk.NewCoins(
				sdk.NewCoin(USDC, sdkmath.NewInt(1_000_000_000_000_000)),
				sdk.NewCoin(USDN, sdkmath.NewInt(1_000_000_000_000_000)),
			)...)
		}
		balances = append(balances, banktypes.Balance{Address: k.Addr.String(), Coins: coins})
	}

	genesis, err = simtestutil.GenesisStateWithValSet(cdc, genesis, valSet, accs, balances...)
	if err != nil {
		return err
	}

	// bank: denom metadata for uusdc (required by the fiat token factory).
	var bankGen banktypes.GenesisState
	cdc.MustUnmarshalJSON(genesis[banktypes.ModuleName], &bankGen)
	bankGen.DenomMetadata = []banktypes.Metadata{{
		Description: "USD Coin",
		DenomUnits: []*banktypes.DenomUnit{
			{Denom: USDC, Exponent: 0, Aliases: []string{"microusdc"}},
			{Denom: "usdc", Exponent: 6},
		},
		Base: USDC, Display: "usdc", Name: "usdc", Symbol: "usdc",
	}}
	genesis[banktypes.ModuleName] = cdc.MustMarshalJSON(&bankGen)

	// fiat token factory.
	cctpModule := authtypes.NewModuleAddress(cctptypes.ModuleName).String()
	ftfGen := ftftypes.GenesisState{
		Paused:       &ftftypes.Paused{Paused: false},
		MasterMinter: &ftftypes.MasterMinter{Address: w.K("ftfmaster").String()},
		MintersList: []ftftypes.Minters{{
			Address:   cctpModule,
			Allowance: sdk.NewCoin(USDC, sdkmath.NewInt(1_000_000_000_000_000)),
		}},
		Pauser:       &ftftypes.Pauser{Address: w.K("ftfpauser").String()},
		Blacklister:  &ftftypes.Blacklister{Address: w.K("ftfblacklister").String()},
		Owner:        &ftftypes.Owner{Address: w.K("ftfowner").String()},
		MintingDenom: &ftftypes.MintingDenom{Denom: USDC},
	}
	genesis[ftftypes.ModuleName] = cdc.MustMarshalJSON(&ftfGen)

	// CCTP.
	attPriv, err := ethcrypto.ToECDSA(ethcrypto.Keccak256([]byte("orbverif/attester")))
	if err != nil {
		return err
	}
	w.Attester = &AttesterKey{
		Priv:   ethcrypto.FromECDSA(attPriv),
		PubHex: "0x" + fmt.Sprintf("%x", ethcrypto.FromECDSAPub(&attPriv.PublicKey)),
	}
	messenger := make([]byte, 32)
	copy(messenger[12:], []byte("orbverif-remote-msgr"))
	var messengers []cctptypes.RemoteTokenMessenger
	for _, d := range CCTPDomainsWithMessenger {
		messengers = append(messengers, cctptypes.RemoteTokenMessenger{DomainId: d, Address: messenger})
	}
	cctpGen := cctptypes.GenesisState{
		Owner:                             w.K("cctpowner").String(),
		AttesterManager:                   w.K("cctpattmgr").String(),
		Pauser:                            w.K("cctppauser").String(),
		TokenController:                   w.K("cctptokctl").String(),
		AttesterList:                      []cctptypes.Attester{{Attester: w.Attester.PubHex}},
		PerMessageBurnLimitList:           []cctptypes.PerMessageBurnLimit{{Denom: USDC, Amount: BurnLimit}},
		BurningAndMintingPaused:           &cctptypes.BurningAndMintingPaused{Paused: false},
		SendingAndReceivingMessagesPaused: &cctptypes.SendingAndReceivingMessagesPaused{Paused: false},
		MaxMessageBodySize:                &cctptypes.MaxMessageBodySize{Amount: 8000},
		NextAvailableNonce:                &cctptypes.Nonce{Nonce: 0},
		SignatureThreshold:                &cctptypes.SignatureThreshold{Amount: 1},
		TokenMessengerList:                messengers,
	}
	genesis[cctptypes.ModuleName] = cdc.MustMarshalJSON(&cctpGen)

	if w.Cfg.OrbiterGenesis != nil {
		genesis[core.ModuleName] = w.Cfg.OrbiterGenesis
	} else {
		genesis[core.ModuleName] = cdc.MustMarshalJSON(orbitertypes.DefaultGenesisState())
	}

	stateBytes, err := json.Marshal(genesis)
	if err != nil {
		return err
	}

	cp := *simtestutil.DefaultConsensusParams
	cp.Block = &cmtproto.BlockParams{MaxBytes: 22020096, MaxGas: -1}
	_, err = app.InitChain(&abci.RequestInitChain{
		ChainId:         ChainID,
		Time:            w.Time,
		Validators:      []abci.ValidatorUpdate{},
		ConsensusParams: &cp,
		AppStateBytes:   stateBytes,
		InitialHeight:   1,
	})
	if err != nil {
		return fmt.Errorf("init chain: %w", err)
	}
	w.Height = 0
	// first (empty) block commits genesis.
	if _, err := w.Block(nil); err != nil {
		return err
	}
	return nil
}

// CCTPDomainsWithMessenger lists the CCTP domains that have a remote token messenger.
var CCTPDomainsWithMessenger = []uint32{0, 2, 5, 4294967295}

// Block executes one block with the given raw transactions and commits.
func (w *World) Block(txs [][]byte) (*abci.ResponseFinalizeBlock, error) {
	w.Height++
	w.Time = w.Time.Add(5 * time.Second)
	res, err := w.App.FinalizeBlock(&abci.RequestFinalizeBlock{
		Height:             w.Height,
		Time:               w.Time,
		Txs:                txs,
		NextValidatorsHash: nil,
		ProposerAddress:    w.Val.PubKey().Address(),
	})
	if err != nil {
		return nil, fmt.Errorf("finalize block %d: %w", w.Height, err)
	}
	if _, err := w.App.Commit(); err != nil {
		return nil, fmt.Errorf("commit %d: %w", w.Height, err)
	}
	return res, nil
}

// Header is the header the next block will have (used for branch contexts).
func (w *World) Header() cmtproto.Header {
	return cmtproto.Header{
		ChainID:         ChainID,
		Height:          w.Height + 1,
		Time:            w.Time.Add(5 * time.Second),
		ProposerAddress: w.Val.PubKey().Address(),
	}
}

// Ctx returns an uncached context over the latest committed state, with a fresh event manager
// and an infinite gas meter. Never write through it: branch it with CacheContext.
func (w *World) Ctx() sdk.Context {
	return w.App.NewUncachedContext(false, w.Header()).WithEventManager(sdk.NewEventManager())
}

// Branch returns a throw-away branch of the committed state.
func (w *World) Branch() sdk.Context {
	ctx, _ := w.Ctx().CacheContext()
	return ctx.WithEventManager(sdk.NewEventManager())
}

// OrbiterAddr is the orbiter module account address.
func OrbiterAddr() sdk.AccAddress { return core.ModuleAddress }

// DustAddr is the dust collector module account address.
func DustAddr() sdk.AccAddress { return authtypes.NewModuleAddress(core.DustCollectorName) }
