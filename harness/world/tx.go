package world

import (
	"context"
	"fmt"

	abci "github.com/cometbft/cometbft/abci/types"

	sdk "github.com/cosmos/cosmos-sdk/types"
	"github.com/cosmos/cosmos-sdk/types/tx/signing"
	authsign "github.com/cosmos/cosmos-sdk/x/auth/signing"
)

// SignTx builds and signs a transaction with the given signers (one signature per key, in
// order). Account numbers and sequences are read from the committed state plus seqOffset (for
// several txs of the same signer in one block).
func (w *World) SignTx(msgs []sdk.Msg, seqOffset uint64, signers ...*Key) ([]byte, error) {
	txConfig := w.TxCfg
	ctx := w.Ctx()

	signMode, err := authsign.APISignModeToInternal(txConfig.SignModeHandler().DefaultMode())
	if err != nil {
		return nil, err
	}
	accNums := make([]uint64, len(signers))
	seqs := make([]uint64, len(signers))
	sigs := make([]signing.SignatureV2, len(signers))
	for i, k := range signers {
		acc := w.App.AccountKeeper.GetAccount(ctx, k.Addr)
		if acc == nil {
			return nil, fmt.Errorf("signer %s has no account", k.Name)
		}
		accNums[i] = acc.GetAccountNumber()
		seqs[i] = acc.GetSequence() + seqOffset
		sigs[i] = signing.SignatureV2{
			PubKey:   k.Priv.PubKey(),
			Data:     &signing.SingleSignatureData{SignMode: signMode},
			Sequence: seqs[i],
		}
	}
	b := txConfig.NewTxBuilder()
	if err := b.SetMsgs(msgs...); err != nil {
		return nil, err
	}
	if err := b.SetSignatures(sigs...); err != nil {
		return nil, err
	}
	b.SetGasLimit(500_000_000)
	for i, k := range signers {
		sd := authsign.SignerData{
			Address:       k.Addr.String(),
			ChainID:       ChainID,
			AccountNumber: accNums[i],
			Sequence:      seqs[i],
			PubKey:        k.Priv.PubKey(),
		}
		signBytes, err := authsign.GetSignBytesAdapter(context.Background(), txConfig.SignModeHandler(), signMode, sd, b.GetTx())
		if err != nil {
			return nil, err
		}
		sig, err := k.Priv.Sign(signBytes)
		if err != nil {
			return nil, err
		}
		sigs[i].Data.(*signing.SingleSignatureData).Signature = sig
	}
	if err := b.SetSignatures(sigs...); err != nil {
		return nil, err
	}
	return txConfig.TxEncoder()(b.GetTx())
}

// DeliverTx signs the messages with signer and executes them alone in one block (mode T).
func (w *World) DeliverTx(signer *Key, msgs ...sdk.Msg) (*abci.ExecTxResult, error) {
	bz, err := w.SignTx(msgs, 0, signer)
	if err != nil {
		return nil, err
	}
	res, err := w.Block([][]byte{bz})
	if err != nil {
		return nil, err
	}
	w.txCount++
	return res.TxResults[0], nil
}

// MustDeliver is DeliverTx that turns a failed transaction into an error.
func (w *World) MustDeliver(signer *Key, msgs ...sdk.Msg) (*abci.ExecTxResult, error) {
	res, err := w.DeliverTx(signer, msgs...)
	if err != nil {
		return nil, err
	}
	if res.Code != 0 {
		return res, fmt.Errorf("tx failed: code=%d codespace=%s log=%s", res.Code, res.Codespace, res.Log)
	}
	return res, nil
}

// HandlerResult is the outcome of a message executed in mode H.
type HandlerResult struct {
	Err      error
	Panic    any
	PanicStk string
	Events   []abci.Event
	Resp     *sdk.Result
}

// Handle runs one message through the application's message service router on a branch of ctx,
// with the commit rule baseapp applies to a message: the branch is written back only when the
// handler returns no error. A panic is recovered and reported (the branch is discarded).
func (w *World) Handle(ctx sdk.Context, msg sdk.Msg) (res HandlerResult) {
	handler := w.App.MsgServiceRouter().Handler(msg)
	if handler == nil {
		res.Err = fmt.Errorf("no handler for %T", msg)
		return res
	}
	branch, write := ctx.CacheContext()
	branch = branch.WithEventManager(sdk.NewEventManager())
	defer func() {
		if r := recover(); r != nil {
			res.Panic = r
			res.PanicStk = stack()
			res.Err = fmt.Errorf("panic: %v", r)
		}
	}()
	out, err := handler(branch, msg)
	if err != nil {
		res.Err = err
		return res
	}
	write()
	res.Resp = out
	res.Events = out.Events
	return res
}
