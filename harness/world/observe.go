package world

import (
	"crypto/sha256"
	"encoding/hex"
	"fmt"
	"math/big"
	"sort"
	"strings"

	storetypes "cosmossdk.io/store/types"
	sdk "github.com/cosmos/cosmos-sdk/types"
)

// Ledger is a snapshot of every bank balance and the total supply.
type Ledger struct {
	Bal    map[string]map[string]*big.Int // address -> denom -> amount
	Supply map[string]*big.Int
}

// Snapshot reads the full bank ledger in ctx.
func (w *World) Snapshot(ctx sdk.Context) *Ledger {
	l := &Ledger{Bal: map[string]map[string]*big.Int{}, Supply: map[string]*big.Int{}}
	w.App.BankKeeper.IterateAllBalances(ctx, func(addr sdk.AccAddress, c sdk.Coin) bool {
		a := addr.String()
		if l.Bal[a] == nil {
			l.Bal[a] = map[string]*big.Int{}
		}
		l.Bal[a][c.Denom] = new(big.Int).Set(c.Amount.BigInt())
		return false
	})
	w.App.BankKeeper.IterateTotalSupply(ctx, func(c sdk.Coin) bool {
		l.Supply[c.Denom] = new(big.Int).Set(c.Amount.BigInt())
		return false
	})
	return l
}

// Get returns the balance of addr in denom (0 if absent).
func (l *Ledger) Get(addr, denom string) *big.Int {
	if m, ok := l.Bal[addr]; ok {
		if v, ok := m[denom]; ok {
			return v
		}
	}
	return new(big.Int)
}

// Delta is after-before over all (address, denom) pairs and the supply; zero entries omitted.
type Delta struct {
	Bal    map[string]*big.Int // "addr|denom" -> delta
	Supply map[string]*big.Int
}

// Diff computes after - before.
func Diff(before, after *Ledger) *Delta {
	d := &Delta{Bal: map[string]*big.Int{}, Supply: map[string]*big.Int{}}
	seen := map[string]bool{}
	add := func(l *Ledger) {
		for a, m := range l.Bal {
			for dn := range m {
				seen[a+"|"+dn] = true
			}
		}
	}
	add(before)
	add(after)
	for k := range seen {
		i := strings.IndexByte(k, '|')
		a, dn := k[:i], k[i+1:]
		x := new(big.Int).Sub(after.Get(a, dn), before.Get(a, dn))
		if x.Sign() != 0 {
			d.Bal[k] = x
		}
	}
	sup := map[string]bool{}
	for k := range before.Supply {
		sup[k] = true
	}
	for k := range after.Supply {
		sup[k] = true
	}
	for k := range sup {
		b, a := before.Supply[k], after.Supply[k]
		if b == nil {
			b = new(big.Int)
		}
		if a == nil {
			a = new(big.Int)
		}
		x := new(big.Int).Sub(a, b)
		if x.Sign() != 0 {
			d.Supply[k] = x
		}
	}
	return d
}

// Of returns the delta of (addr, denom).
func (d *Delta) Of(addr, denom string) *big.Int {
	if v, ok := d.Bal[addr+"|"+denom]; ok {
		return v
	}
	return new(big.Int)
}

// String renders the delta deterministically.
func (d *Delta) String() string {
	keys := make([]string, 0, len(d.Bal))
	for k := range d.Bal {
		keys = append(keys, k)
	}
	sort.Strings(keys)
	var sb strings.Builder
	for _, k := range keys {
		fmt.Fprintf(&sb, "%s:%s ", k, d.Bal[k].String())
	}
	sk := make([]string, 0, len(d.Supply))
	for k := range d.Supply {
		sk = append(sk, k)
	}
	sort.Strings(sk)
	for _, k := range sk {
		fmt.Fprintf(&sb, "supply|%s:%s ", k, d.Supply[k].String())
	}
	return strings.TrimSpace(sb.String())
}

// Equal compares two deltas.
func (d *Delta) Equal(o *Delta) bool { return d.String() == o.String() }

// StoreDump returns, per mounted KV store, the sorted key/value pairs as hex strings.
func (w *World) StoreDump(ctx sdk.Context) map[string][][2]string {
	out := map[string][][2]string{}
	for _, k := range w.App.GetStoreKeys() {
		kv, ok := k.(*storetypes.KVStoreKey)
		if !ok {
			continue
		}
		it := ctx.KVStore(kv).Iterator(nil, nil)
		var rows [][2]string
		for ; it.Valid(); it.Next() {
			rows = append(rows, [2]string{hex.EncodeToString(it.Key()), hex.EncodeToString(it.Value())})
		}
		it.Close()
		out[kv.Name()] = rows
	}
	return out
}

// StoreDigest hashes StoreDump per store.
func (w *World) StoreDigest(ctx sdk.Context) map[string]string {
	out := map[string]string{}
	for name, rows := range w.StoreDump(ctx) {
		h := sha256.New()
		for _, r := range rows {
			h.Write([]byte(r[0]))
			h.Write([]byte{0})
			h.Write([]byte(r[1]))
			h.Write([]byte{1})
		}
		out[name] = hex.EncodeToString(h.Sum(nil))
	}
	return out
}

// DigestDiff lists the stores whose digest differs.
func DigestDiff(a, b map[string]string) []string {
	var out []string
	for k, v := range a {
		if b[k] != v {
			out = append(out, k)
		}
	}
	for k := range b {
		if _, ok := a[k]; !ok {
			out = append(out, k)
		}
	}
	sort.Strings(out)
	return out
}

// StoreDiff returns the keys (hex) of one store that differ between two dumps, capped.
func StoreDiff(a, b [][2]string, max int) []string {
	ma := map[string]string{}
	for _, r := range a {
		ma[r[0]] = r[1]
	}
	mb := map[string]string{}
	for _, r := range b {
		mb[r[0]] = r[1]
	}
	var out []string
	for k, v := range ma {
		if mb[k] != v {
			out = append(out, k)
		}
	}
	for k := range mb {
		if _, ok := ma[k]; !ok {
			out = append(out, k)
		}
	}
	sort.Strings(out)
	if len(out) > max {
		out = out[:max]
	}
	return out
}
