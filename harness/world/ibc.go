package world

import (
	"fmt"
	"runtime/debug"
	"strings"

	abci "github.com/cometbft/cometbft/abci/types"

	"github.com/circlefin/noble-fiattokenfactory/x/blockibc"

	sdkmath "cosmossdk.io/math"
	sdk "github.com/cosmos/cosmos-sdk/types"
	"github.com/cosmos/ibc-go/v8/modules/apps/transfer"
	transfertypes "github.com/cosmos/ibc-go/v8/modules/apps/transfer/types"
	clienttypes "github.com/cosmos/ibc-go/v8/modules/core/02-client/types"
	channeltypes "github.com/cosmos/ibc-go/v8/modules/core/04-channel/types"
	porttypes "github.com/cosmos/ibc-go/v8/modules/core/05-port/types"
	ibcexported "github.com/cosmos/ibc-go/v8/modules/core/exported"

	"github.com/noble-assets/orbiter/v2/entrypoint"
)

const (
	Port       = transfertypes.PortID
	LocalConn  = ibcexported.LocalhostConnectionID
	ICSVersion = transfertypes.Version
)

// SentinelProof is the proof the 09-localhost client expects.
var SentinelProof = []byte{0x01}

func stack() string { return string(debug.Stack()) }

// installRouterWithoutOrbiter replaces the sealed IBC router by blockibc(transfer) only.
func (w *World) installRouterWithoutOrbiter() {
	var stack porttypes.IBCModule = transfer.NewIBCModule(w.App.TransferKeeper)
	stack = blockibc.NewIBCMiddleware(stack, w.App.FTFKeeper)
	w.App.IBCKeeper.Router = porttypes.NewRouter().AddRoute(transfertypes.ModuleName, stack)
}

// OrbiterStack returns entrypoint(transfer) — the orbiter middleware directly around the ICS-20
// application, without blockibc — built from the application's own keepers (mode C).
func (w *World) OrbiterStack() porttypes.IBCModule {
	return entrypoint.NewIBCMiddleware(
		transfer.NewIBCModule(w.App.TransferKeeper),
		w.App.IBCKeeper.ChannelKeeper,
		w.App.OrbiterKeeper.Adapter(),
	)
}

// BareTransfer returns the ICS-20 application alone.
func (w *World) BareTransfer() porttypes.IBCModule {
	return transfer.NewIBCModule(w.App.TransferKeeper)
}

// RoutedStack returns whatever the application's IBC router holds for the transfer port.
func (w *World) RoutedStack() porttypes.IBCModule {
	m, ok := w.App.IBCKeeper.Router.GetRoute(transfertypes.ModuleName)
	if !ok {
		panic("no transfer route")
	}
	return m
}

func attr(events []abci.Event, typ, key string) (string, bool) {
	for _, e := range events {
		if e.Type != typ {
			continue
		}
		for _, a := range e.Attributes {
			if a.Key == key {
				return a.Value, true
			}
		}
	}
	return "", false
}

func (w *World) openChannels(n int) error {
	rel := w.K("relayer")
	for i := 0; i < n; i++ {
		res, err := w.MustDeliver(rel, channeltypes.NewMsgChannelOpenInit(
			Port, ICSVersion, channeltypes.UNORDERED, []string{LocalConn}, Port, rel.String()))
		if err != nil {
			return fmt.Errorf("chan open init: %w", err)
		}
		chA, ok := attr(res.Events, "channel_open_init", "channel_id")
		if !ok {
			return fmt.Errorf("no channel id in init events")
		}
		res, err = w.MustDeliver(rel, channeltypes.NewMsgChannelOpenTry(
			Port, ICSVersion, channeltypes.UNORDERED, []string{LocalConn}, Port, chA, ICSVersion,
			SentinelProof, clienttypes.NewHeight(1, uint64(w.Height+1)), rel.String()))
		if err != nil {
			return fmt.Errorf("chan open try: %w", err)
		}
		chB, ok := attr(res.Events, "channel_open_try", "channel_id")
		if !ok {
			return fmt.Errorf("no channel id in try events")
		}
		if _, err = w.MustDeliver(rel, channeltypes.NewMsgChannelOpenAck(
			Port, chA, chB, ICSVersion, SentinelProof, clienttypes.NewHeight(1, uint64(w.Height+1)), rel.String())); err != nil {
			return fmt.Errorf("chan open ack: %w", err)
		}
		if _, err = w.MustDeliver(rel, channeltypes.NewMsgChannelOpenConfirm(
			Port, chB, SentinelProof, clienttypes.NewHeight(1, uint64(w.Height+1)), rel.String())); err != nil {
			return fmt.Errorf("chan open confirm: %w", err)
		}
		w.Channels = append(w.Channels, ChannelPair{A: chA, B: chB})
	}
	return nil
}

// MsgTransfer builds an ICS-20 transfer message with a far timeout.
func (w *World) MsgTransfer(srcChannel string, coin sdk.Coin, sender, receiver, memo string) *transfertypes.MsgTransfer {
	return transfertypes.NewMsgTransfer(Port, srcChannel, coin, sender, receiver,
		clienttypes.NewHeight(1, 1_000_000_000), 0, memo)
}

// Escrow sends coin out of the chain over channel A of the pair (mode T), receiver = `to` on the
// "remote" end, and relays the packet to end B so that the voucher exists. It returns the voucher
// denom held by `to`.
func (w *World) Escrow(pair ChannelPair, from *Key, to sdk.AccAddress, coin sdk.Coin) (string, error) {
	res, err := w.MustDeliver(from, w.MsgTransfer(pair.A, coin, from.String(), to.String(), ""))
	if err != nil {
		return "", fmt.Errorf("escrow transfer: %w", err)
	}
	pkt, err := PacketFromEvents(res.Events)
	if err != nil {
		return "", err
	}
	rel := w.K("relayer")
	res, err = w.MustDeliver(rel, w.MsgRecv(pkt, rel))
	if err != nil {
		return "", fmt.Errorf("escrow recv: %w", err)
	}
	ack, _ := AckFromEvents(res.Events)
	if !ackSuccess(ack) {
		return "", fmt.Errorf("escrow recv ack: %s", string(ack))
	}
	return VoucherDenom(pair.B, coin.Denom), nil
}

// VoucherDenom is the ibc/… denom of base received over channel ch.
func VoucherDenom(ch, base string) string {
	return transfertypes.ParseDenomTrace(Port + "/" + ch + "/" + base).IBCDenom()
}

// MsgRecv builds MsgRecvPacket for a packet with the localhost sentinel proof.
func (w *World) MsgRecv(pkt channeltypes.Packet, relayer *Key) *channeltypes.MsgRecvPacket {
	return channeltypes.NewMsgRecvPacket(pkt, SentinelProof, clienttypes.NewHeight(1, uint64(w.Height+1)), relayer.String())
}

// PacketFromEvents reconstructs the packet from send_packet events.
func PacketFromEvents(events []abci.Event) (channeltypes.Packet, error) {
	for _, e := range events {
		if e.Type != channeltypes.EventTypeSendPacket {
			continue
		}
		m := map[string]string{}
		for _, a := range e.Attributes {
			m[a.Key] = a.Value
		}
		var seq uint64
		fmt.Sscanf(m[channeltypes.AttributeKeySequence], "%d", &seq)
		data, err := hexDecode(m[channeltypes.AttributeKeyDataHex])
		if err != nil {
			return channeltypes.Packet{}, err
		}
		th, err := clienttypes.ParseHeight(m[channeltypes.AttributeKeyTimeoutHeight])
		if err != nil {
			return channeltypes.Packet{}, err
		}
		var ts uint64
		fmt.Sscanf(m[channeltypes.AttributeKeyTimeoutTimestamp], "%d", &ts)
		return channeltypes.NewPacket(data, seq,
			m[channeltypes.AttributeKeySrcPort], m[channeltypes.AttributeKeySrcChannel],
			m[channeltypes.AttributeKeyDstPort], m[channeltypes.AttributeKeyDstChannel], th, ts), nil
	}
	return channeltypes.Packet{}, fmt.Errorf("no send_packet event")
}

// AckFromEvents extracts the acknowledgement bytes written for a received packet.
func AckFromEvents(events []abci.Event) ([]byte, bool) {
	for _, e := range events {
		if e.Type != channeltypes.EventTypeWriteAck {
			continue
		}
		for _, a := range e.Attributes {
			if a.Key == channeltypes.AttributeKeyAckHex {
				bz, err := hexDecode(a.Value)
				if err != nil {
					return nil, false
				}
				return bz, true
			}
		}
	}
	return nil, false
}

func hexDecode(s string) ([]byte, error) {
	out := make([]byte, len(s)/2)
	for i := 0; i+1 < len(s); i += 2 {
		var b byte
		if _, err := fmt.Sscanf(s[i:i+2], "%02x", &b); err != nil {
			return nil, err
		}
		out[i/2] = b
	}
	return out, nil
}

func ackSuccess(ack []byte) bool {
	var a channeltypes.Acknowledgement
	if err := channeltypes.SubModuleCdc.UnmarshalJSON(ack, &a); err != nil {
		return false
	}
	return a.Success()
}

// AckSuccess reports whether acknowledgement bytes decode to a success acknowledgement.
func AckSuccess(ack []byte) bool { return ackSuccess(ack) }

// AckError returns the error string of an error acknowledgement ("" if not an error ack).
func AckError(ack []byte) string {
	var a channeltypes.Acknowledgement
	if err := channeltypes.SubModuleCdc.UnmarshalJSON(ack, &a); err != nil {
		return ""
	}
	if e, ok := a.Response.(*channeltypes.Acknowledgement_Error); ok {
		return e.Error
	}
	return ""
}

// ICS20 builds ICS-20 packet data bytes the way the transfer module does.
func ICS20(denom, amount, sender, receiver, memo string) []byte {
	d := transfertypes.NewFungibleTokenPacketData(denom, amount, sender, receiver, memo)
	return d.GetBytes()
}

// ForgePacket plays the hostile counterparty: it creates a packet with arbitrary data "sent" from
// end B of the pair to end A, and stores its commitment on end B in ctx so that the real
// MsgRecvPacket accepts it. The sequence numbers used are far above real ones.
func (w *World) ForgePacket(ctx sdk.Context, pair ChannelPair, data []byte) channeltypes.Packet {
	w.forgedSeq++
	return w.ForgePacketSeq(ctx, pair, data, w.forgedSeq)
}

// ForgePacketSeq is ForgePacket with an explicit sequence.
func (w *World) ForgePacketSeq(ctx sdk.Context, pair ChannelPair, data []byte, seq uint64) channeltypes.Packet {
	pkt := channeltypes.NewPacket(data, seq, Port, pair.B, Port, pair.A,
		clienttypes.NewHeight(1, 1_000_000_000), 0)
	commitment := channeltypes.CommitPacket(w.Cdc, pkt)
	w.App.IBCKeeper.ChannelKeeper.SetPacketCommitment(ctx, Port, pair.B, seq, commitment)
	return pkt
}

// RecvResult is the outcome of delivering one packet.
type RecvResult struct {
	Mode    string
	Ack     []byte // nil when no acknowledgement was written
	AckOK   bool
	AckErr  string
	Err     error // handler / tx error
	Panic   any
	PanicAt string
	Events  []abci.Event
	Code    uint32
	Log     string
}

func (r RecvResult) String() string {
	switch {
	case r.Panic != nil:
		return fmt.Sprintf("[%s] PANIC %v", r.Mode, r.Panic)
	case r.Err != nil:
		return fmt.Sprintf("[%s] ERR %v", r.Mode, r.Err)
	case r.Ack == nil:
		return fmt.Sprintf("[%s] NOACK", r.Mode)
	case r.AckOK:
		return fmt.Sprintf("[%s] ACK-OK", r.Mode)
	default:
		return fmt.Sprintf("[%s] ACK-ERR %s", r.Mode, r.AckErr)
	}
}

func firstOrbiterFrame(stk string) string {
	lines := strings.Split(stk, "\n")
	for i, l := range lines {
		if strings.Contains(l, "github.com/noble-assets/orbiter/v2/") && i+1 < len(lines) {
			return strings.TrimSpace(l) + " @ " + strings.TrimSpace(lines[i+1])
		}
	}
	return ""
}

// RecvH delivers the packet through the real core MsgRecvPacket handler on a branch of ctx
// (mode H). The branch is written into ctx when the handler succeeds (core itself discards the
// application's writes on an error acknowledgement).
func (w *World) RecvH(ctx sdk.Context, pkt channeltypes.Packet) RecvResult {
	rel := w.K("relayer")
	hr := w.Handle(ctx, w.MsgRecv(pkt, rel))
	out := RecvResult{Mode: "H", Err: hr.Err, Panic: hr.Panic, Events: hr.Events}
	if hr.Panic != nil {
		out.PanicAt = firstOrbiterFrame(hr.PanicStk)
		return out
	}
	if hr.Err != nil {
		return out
	}
	if ack, ok := AckFromEvents(hr.Events); ok {
		out.Ack = ack
		out.AckOK = ackSuccess(ack)
		out.AckErr = AckError(ack)
	}
	return out
}

// RecvT delivers the packet in a signed transaction in its own block (mode T). The packet
// commitment must already be committed.
func (w *World) RecvT(pkt channeltypes.Packet, extra ...sdk.Msg) (RecvResult, error) {
	rel := w.K("relayer")
	msgs := append([]sdk.Msg{}, extra...)
	msgs = append(msgs, w.MsgRecv(pkt, rel))
	res, err := w.DeliverTx(rel, msgs...)
	if err != nil {
		return RecvResult{}, err
	}
	out := RecvResult{Mode: "T", Events: res.Events, Code: res.Code, Log: res.Log}
	if res.Code != 0 {
		out.Err = fmt.Errorf("tx code %d (%s): %s", res.Code, res.Codespace, firstLine(res.Log))
		if res.Codespace == "undefined" && res.Code == 111222 {
			out.Panic = firstLine(res.Log)
		}
		return out, nil
	}
	if ack, ok := AckFromEvents(res.Events); ok {
		out.Ack = ack
		out.AckOK = ackSuccess(ack)
		out.AckErr = AckError(ack)
	}
	return out, nil
}

func firstLine(s string) string {
	if i := strings.IndexByte(s, '\n'); i >= 0 {
		return s[:i]
	}
	return s
}

// RecvC calls OnRecvPacket of the given IBC module directly on a branch of ctx with core's
// commit rule (write iff the acknowledgement is nil or successful) — mode C.
func (w *World) RecvC(ctx sdk.Context, mod porttypes.IBCModule, pkt channeltypes.Packet) (res RecvResult) {
	res.Mode = "C"
	branch, write := ctx.CacheContext()
	branch = branch.WithEventManager(sdk.NewEventManager())
	defer func() {
		if r := recover(); r != nil {
			res.Panic = r
			res.PanicAt = firstOrbiterFrame(stack())
			res.Err = fmt.Errorf("panic: %v", r)
		}
	}()
	ack := mod.OnRecvPacket(branch, pkt, w.K("relayer").Addr)
	if ack == nil {
		write()
		res.Events = branch.EventManager().ABCIEvents()
		return res
	}
	res.Ack = ack.Acknowledgement()
	res.AckOK = ack.Success()
	res.AckErr = AckError(res.Ack)
	if ack.Success() {
		write()
		res.Events = branch.EventManager().ABCIEvents()
	}
	return res
}

// EnsureEscrow makes sure channel A of every pair has at least `amount` of denom in escrow, by
// real transfers from `from` to bob on the remote end.
func (w *World) EnsureEscrow(from *Key, denom string, amount sdkmath.Int) error {
	for _, p := range w.Channels {
		if _, err := w.Escrow(p, from, w.K("bob").Addr, sdk.NewCoin(denom, amount)); err != nil {
			return err
		}
	}
	return nil
}

// FarTimeout is a timeout height far in the future.
func (w *World) FarTimeout() clienttypes.Height { return clienttypes.NewHeight(1, 1_000_000_000) }
