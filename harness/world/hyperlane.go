package world

import (
	"fmt"

	hyputil "github.com/bcp-innovations/hyperlane-cosmos/util"
	ismtypes "github.com/bcp-innovations/hyperlane-cosmos/x/core/01_interchain_security/types"
	pdtypes "github.com/bcp-innovations/hyperlane-cosmos/x/core/02_post_dispatch/types"
	hyptypes "github.com/bcp-innovations/hyperlane-cosmos/x/core/types"
	warptypes "github.com/bcp-innovations/hyperlane-cosmos/x/warp/types"
	cctptypes "github.com/circlefin/noble-cctp/x/cctp/types"

	sdkmath "cosmossdk.io/math"
	sdk "github.com/cosmos/cosmos-sdk/types"
	"github.com/cosmos/gogoproto/proto"

	forwardingtypes "github.com/noble-assets/orbiter/v2/types/controller/forwarding"
)

// HypSetup records the Hyperlane objects created for a world.
type HypSetup struct {
	ISM        hyputil.HexAddress
	NoopHook   hyputil.HexAddress
	MerkleHook hyputil.HexAddress
	IGP        hyputil.HexAddress
	Mailbox    hyputil.HexAddress
	TokenUSDC  hyputil.HexAddress
	TokenUSDN  hyputil.HexAddress
	TokenBIG   hyputil.HexAddress
	// Domains with an enrolled router (on every token) and without.
	Enrolled   []uint32
	Unenrolled []uint32
	// IGPDomains are the enrolled domains for which the IGP has a gas config.
	IGPDomains []uint32
	IGPDenom   string
}

// HypEnrolledDomains are the remote domains with enrolled routers.
var HypEnrolledDomains = []uint32{1, 10, 42161, 4294967295}

// HypUnenrolledDomains have no router.
var HypUnenrolledDomains = []uint32{7, 8453}

// DeliverResp delivers one message in mode T and decodes its response.
func (w *World) DeliverResp(signer *Key, msg sdk.Msg, resp proto.Message) error {
	res, err := w.MustDeliver(signer, msg)
	if err != nil {
		return err
	}
	var data sdk.TxMsgData
	if err := proto.Unmarshal(res.Data, &data); err != nil {
		return err
	}
	if len(data.MsgResponses) != 1 {
		return fmt.Errorf("expected 1 msg response, got %d", len(data.MsgResponses))
	}
	return proto.Unmarshal(data.MsgResponses[0].Value, resp)
}

func (w *World) setupHyperlane() error {
	o := w.K("hypowner")
	owner := o.String()
	h := &w.Hyp

	var ism ismtypes.MsgCreateNoopIsmResponse
	if err := w.DeliverResp(o, &ismtypes.MsgCreateNoopIsm{Creator: owner}, &ism); err != nil {
		return fmt.Errorf("create ism: %w", err)
	}
	h.ISM = ism.Id

	var noop pdtypes.MsgCreateNoopHookResponse
	if err := w.DeliverResp(o, &pdtypes.MsgCreateNoopHook{Owner: owner}, &noop); err != nil {
		return fmt.Errorf("create noop hook: %w", err)
	}
	h.NoopHook = noop.Id

	h.IGPDenom = USDN
	var igp pdtypes.MsgCreateIgpResponse
	if err := w.DeliverResp(o, &pdtypes.MsgCreateIgp{Owner: owner, Denom: h.IGPDenom}, &igp); err != nil {
		return fmt.Errorf("create igp: %w", err)
	}
	h.IGP = igp.Id

	var mb hyptypes.MsgCreateMailboxResponse
	if err := w.DeliverResp(o, &hyptypes.MsgCreateMailbox{
		Owner:        owner,
		LocalDomain:  forwardingtypes.HypNobleMainnetDomain,
		DefaultIsm:   h.ISM,
		DefaultHook:  &h.NoopHook,
		RequiredHook: &h.NoopHook,
	}, &mb); err != nil {
		return fmt.Errorf("create mailbox: %w", err)
	}
	h.Mailbox = mb.Id

	var mt pdtypes.MsgCreateMerkleTreeHookResponse
	if err := w.DeliverResp(o, &pdtypes.MsgCreateMerkleTreeHook{Owner: owner, MailboxId: h.Mailbox}, &mt); err != nil {
		return fmt.Errorf("create merkle hook: %w", err)
	}
	h.MerkleHook = mt.Id

	h.Enrolled = HypEnrolledDomains
	h.Unenrolled = HypUnenrolledDomains
	h.IGPDomains = []uint32{1, 10}
	for _, d := range h.IGPDomains {
		if _, err := w.MustDeliver(o, &pdtypes.MsgSetDestinationGasConfig{
			Owner: owner,
			IgpId: h.IGP,
			DestinationGasConfig: &pdtypes.DestinationGasConfig{
				RemoteDomain: d,
				GasOracle: &pdtypes.GasOracle{
					TokenExchangeRate: sdkmath.NewInt(10_000_000_000), // 1:1 (scale 1e10)
					GasPrice:          sdkmath.NewInt(1),
				},
				GasOverhead: sdkmath.NewInt(100),
			},
		}); err != nil {
			return fmt.Errorf("igp gas config: %w", err)
		}
	}

	if w.Cfg.IGP {
		if _, err := w.MustDeliver(o, &hyptypes.MsgSetMailbox{
			Owner: owner, MailboxId: h.Mailbox, RequiredHook: &h.IGP,
		}); err != nil {
			return fmt.Errorf("set mailbox: %w", err)
		}
	}

	mk := func(denom string) (hyputil.HexAddress, error) {
		var tok warptypes.MsgCreateCollateralTokenResponse
		if err := w.DeliverResp(o, &warptypes.MsgCreateCollateralToken{
			Owner: owner, OriginMailbox: h.Mailbox, OriginDenom: denom,
		}, &tok); err != nil {
			return hyputil.HexAddress{}, fmt.Errorf("create token %s: %w", denom, err)
		}
		for _, d := range h.Enrolled {
			if _, err := w.MustDeliver(o, &warptypes.MsgEnrollRemoteRouter{
				Owner: owner, TokenId: tok.Id,
				RemoteRouter: &warptypes.RemoteRouter{
					ReceiverDomain:   d,
					ReceiverContract: "0x000000000000000000000000000000000000000000000000000000000000beef",
					Gas:              sdkmath.NewInt(50_000),
				},
			}); err != nil {
				return hyputil.HexAddress{}, fmt.Errorf("enroll router: %w", err)
			}
		}
		return tok.Id, nil
	}
	var err error
	if h.TokenUSDC, err = mk(USDC); err != nil {
		return err
	}
	if h.TokenUSDN, err = mk(USDN); err != nil {
		return err
	}
	if h.TokenBIG, err = mk(BIG); err != nil {
		return err
	}
	return w.warmUp()
}

// warmUp makes the chain look like a live one: the module accounts of the bridges (cctp,
// fiat-tokenfactory, warp, hyperlane) exist because the bridges have been used before.
func (w *World) warmUp() error {
	alice := w.K("alice")
	rcpt := make([]byte, 32)
	rcpt[31] = 1
	if _, err := w.MustDeliver(alice, &cctptypes.MsgDepositForBurn{
		From: alice.String(), Amount: sdkmath.NewInt(1000), DestinationDomain: 0, MintRecipient: rcpt, BurnToken: USDC,
	}); err != nil {
		return fmt.Errorf("warm-up cctp: %w", err)
	}
	var r32 hyputil.HexAddress
	copy(r32[:], rcpt)
	if _, err := w.MustDeliver(alice, &warptypes.MsgRemoteTransfer{
		Sender: alice.String(), TokenId: w.Hyp.TokenUSDN, DestinationDomain: 1, Recipient: r32,
		Amount: sdkmath.NewInt(1000), CustomHookId: &w.Hyp.IGP, GasLimit: sdkmath.NewInt(1000),
		MaxFee: sdk.NewCoin(USDN, sdkmath.NewInt(1_000_000)),
	}); err != nil {
		return fmt.Errorf("warm-up warp: %w", err)
	}
	return nil
}
