module orbverif

go 1.24.0

require (
	github.com/noble-assets/orbiter/v2 v2.0.0-00010101000000-000000000000
	github.com/noble-assets/orbiter/v2/simapp v0.0.0-00010101000000-000000000000
)

replace (
	cosmossdk.io/collections => github.com/noble-assets/cosmos-sdk/collections v0.0.0-20250923134424-edd65694c2f7
	github.com/noble-assets/orbiter/v2 => /repo
	github.com/noble-assets/orbiter/v2/simapp => /repo/simapp
	github.com/syndtr/goleveldb => github.com/syndtr/goleveldb v1.0.1-0.20210819022825-2ae1ddf74ef7
)
