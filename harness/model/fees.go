// Package model is the reference model written from the property statements. It shares no code
// with the module under test (only math/big and the SDK's bech32 decoder).
package model

import (
	"math/big"
	"regexp"

	sdk "github.com/cosmos/cosmos-sdk/types"

	"orbverif/spec"
)

// Verdict is the three-valued expectation for a case.
type Verdict int

const (
	Either Verdict = iota
	MustSucceed
	MustRefuse
)

func (v Verdict) String() string {
	switch v {
	case MustSucceed:
		return "MUST-SUCCEED"
	case MustRefuse:
		return "MUST-REFUSE"
	}
	return "EITHER"
}

var (
	two256       = new(big.Int).Lsh(big.NewInt(1), 256)
	canonicalPos = regexp.MustCompile(`^[1-9][0-9]*$`)
	tenK         = big.NewInt(10000)
)

// MaxFeeEntries is the maximum number of entries of a fee action (property C04).
const MaxFeeEntries = 5

// FeeResult is the model's answer for a fee action applied to amount A.
type FeeResult struct {
	Verdict Verdict
	Reason  string
	// Credits per entry (nil for entries that credit nothing), valid when Verdict != MustRefuse.
	PerEntry []*big.Int
	Total    *big.Int
	Forward  *big.Int
}

// ValidRecipient is the model's notion of a valid fee/internal recipient: a bech32 address with
// the chain's prefix (lower-case canonical form).
func ValidRecipient(s string) bool {
	_, err := sdk.AccAddressFromBech32(s)
	return err == nil
}

// BlockedRecipients are addresses the chain's bank module blocks from receiving funds. The
// property does not say whether a fee to such an address is paid or refused: Either.
var BlockedRecipients = map[string]bool{}

// OrbiterAddress is the bech32 address of the orbiter module account.
var OrbiterAddress string

// Fees computes the model result of a fee action on amount a.
//
// Canonical inputs get a two-sided verdict. Inputs whose treatment the property does not fix
// (non-canonical spellings of a fixed amount that still denote a positive integer; products
// a*bps >= 2^256, sums >= 2^256) are Either: the transfer may be refused, but if it is executed
// the credits must be exactly the model's.
func Fees(a *big.Int, fees []spec.Fee) FeeResult {
	res := FeeResult{Verdict: MustSucceed, Total: new(big.Int)}
	if len(fees) > MaxFeeEntries {
		return FeeResult{Verdict: MustRefuse, Reason: "more than five entries"}
	}
	either := ""
	for _, f := range fees {
		if f.Raw != nil {
			return FeeResult{Verdict: Either, Reason: "raw entry"}
		}
		if !ValidRecipient(f.Recipient) {
			return FeeResult{Verdict: MustRefuse, Reason: "invalid recipient"}
		}
		if ra, err := sdk.AccAddressFromBech32(f.Recipient); err == nil && (BlockedRecipients[ra.String()] || ra.String() == OrbiterAddress) {
			// blocked by the bank module, or the orbiter account itself (a fee that cannot leave
			// the account; C01 then demands a refusal): the fee rule alone fixes no outcome
			either = "blocked recipient or the orbiter account"
		}
		var amt *big.Int
		if f.IsBPS {
			if f.BPS == 0 || f.BPS > 10000 {
				return FeeResult{Verdict: MustRefuse, Reason: "bps out of range"}
			}
			prod := new(big.Int).Mul(a, new(big.Int).SetUint64(f.BPS))
			if prod.Cmp(two256) >= 0 {
				either = "a*bps overflows 256 bits"
			}
			amt = prod.Quo(prod, tenK)
		} else {
			v, ok := new(big.Int).SetString(f.Amount, 10)
			if !canonicalPos.MatchString(f.Amount) {
				// Not the canonical decimal form. The statement fixes the outcome only where the
				// string denotes no positive integer under any common integer syntax (decimal or
				// Go's prefixed/underscored literals): then it must be refused. Otherwise the
				// transfer may be refused, or executed with the value the string denotes; when
				// the two readings disagree (leading-zero octal) no exact value is demanded.
				v0, ok0 := new(big.Int).SetString(f.Amount, 0)
				switch {
				case (!ok || v.Sign() <= 0) && (!ok0 || v0.Sign() <= 0):
					return FeeResult{Verdict: MustRefuse, Reason: "fixed amount not a positive integer"}
				case ok && ok0 && v.Cmp(v0) != 0:
					return FeeResult{Verdict: Either, Reason: "ambiguous spelling"}
				case !ok:
					v, ok = v0, true
				}
				either = "non-canonical spelling of a positive integer"
			}
			if ok && v.Cmp(two256) >= 0 {
				return FeeResult{Verdict: MustRefuse, Reason: "fixed amount exceeds 256 bits"}
			}
			amt = v
		}
		if amt.Sign() == 0 {
			res.PerEntry = append(res.PerEntry, nil)
			continue
		}
		res.PerEntry = append(res.PerEntry, amt)
		res.Total.Add(res.Total, amt)
	}
	if res.Total.Cmp(two256) >= 0 {
		return FeeResult{Verdict: MustRefuse, Reason: "sum overflows"}
	}
	if res.Total.Cmp(a) >= 0 {
		return FeeResult{Verdict: MustRefuse, Reason: "sum not strictly below amount"}
	}
	res.Forward = new(big.Int).Sub(a, res.Total)
	if either != "" {
		res.Verdict = Either
		res.Reason = either
	}
	return res
}
