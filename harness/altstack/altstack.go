// Package altstack builds a second orbiter keeper over the SAME stores as the application's,
// with every constructor-injected dependency wrapped by a recorder / fault injector that
// otherwise delegates to the real implementation (DESIGN.md 2.3). No source hooks are needed.
package altstack

import (
	"context"
	"encoding/json"
	"fmt"

	warpkeeper "github.com/bcp-innovations/hyperlane-cosmos/x/warp/keeper"
	warptypes "github.com/bcp-innovations/hyperlane-cosmos/x/warp/types"
	cctpkeeper "github.com/circlefin/noble-cctp/x/cctp/keeper"
	cctptypes "github.com/circlefin/noble-cctp/x/cctp/types"
	"google.golang.org/protobuf/runtime/protoiface"

	"cosmossdk.io/core/event"
	"cosmossdk.io/log"
	"github.com/cosmos/cosmos-sdk/runtime"
	sdk "github.com/cosmos/cosmos-sdk/types"
	authcodec "github.com/cosmos/cosmos-sdk/x/auth/codec"
	bankkeeper "github.com/cosmos/cosmos-sdk/x/bank/keeper"
	banktypes "github.com/cosmos/cosmos-sdk/x/bank/types"
	"github.com/cosmos/ibc-go/v8/modules/apps/transfer"
	channeltypes "github.com/cosmos/ibc-go/v8/modules/core/04-channel/types"
	porttypes "github.com/cosmos/ibc-go/v8/modules/core/05-port/types"
	ibcexported "github.com/cosmos/ibc-go/v8/modules/core/exported"

	actionctrl "github.com/noble-assets/orbiter/v2/controller/action"
	adapterctrl "github.com/noble-assets/orbiter/v2/controller/adapter"
	forwardingctrl "github.com/noble-assets/orbiter/v2/controller/forwarding"
	"github.com/noble-assets/orbiter/v2/entrypoint"
	"github.com/noble-assets/orbiter/v2/keeper"
	orbitertypes "github.com/noble-assets/orbiter/v2/types"
	forwardingtypes "github.com/noble-assets/orbiter/v2/types/controller/forwarding"

	"orbverif/world"
)

// Call is one recorded call at a dependency boundary.
type Call struct {
	Site string `json:"site"`
	Req  string `json:"req"` // rendered request
	Err  string `json:"err,omitempty"`
	Obj  any    `json:"-"` // the request value itself
}

// Plan says which call of which site fails: site -> k (1-based); 0 = never.
type Plan map[string]int

// Recorder records calls and injects faults.
type Recorder struct {
	Calls  []Call
	Count  map[string]int
	Plan   Plan
	Fired  []string
	AppErr string // "", "before" (error ack without calling ICS-20) or "after" (error ack after ICS-20 ran)
	// Panic makes the planned fault a panic of the dependency instead of a returned error.
	Panic bool
}

// Reset clears the recorder and installs a plan.
func (r *Recorder) Reset(p Plan) {
	r.Calls = nil
	r.Count = map[string]int{}
	r.Plan = p
	r.Fired = nil
	r.AppErr = ""
	r.Panic = false
}

// hit records the call and returns an injected error when the plan says so.
func (r *Recorder) hit(site string, req any) error {
	if r.Count == nil {
		r.Count = map[string]int{}
	}
	r.Count[site]++
	c := Call{Site: site, Req: render(req), Obj: req}
	var err error
	if k := r.Plan[site]; k != 0 && k == r.Count[site] {
		err = fmt.Errorf("injected fault at %s call %d", site, k)
		r.Fired = append(r.Fired, fmt.Sprintf("%s#%d", site, k))
		c.Err = err.Error()
		if r.Panic {
			r.Calls = append(r.Calls, c)
			panic(fmt.Sprintf("injected panic at %s call %d", site, k))
		}
	}
	r.Calls = append(r.Calls, c)
	return err
}

func render(v any) string {
	switch t := v.(type) {
	case string:
		return t
	case fmt.Stringer:
		bz, err := json.Marshal(v)
		if err == nil {
			return string(bz)
		}
		return t.String()
	}
	bz, _ := json.Marshal(v)
	return string(bz)
}

// ByKind returns the recorded calls of a site.
func (r *Recorder) BySite(site string) []Call {
	var out []Call
	for _, c := range r.Calls {
		if c.Site == site {
			out = append(out, c)
		}
	}
	return out
}

// ---- bank keeper wrapper (adapter, forwarder, fee) ----

// The real keeper is embedded, so that any other bank method the module may come to use (a
// changed expected-keeper interface) is served by the real keeper without instrumentation.
type bankWrap struct {
	bankkeeper.Keeper
	rec *Recorder
}

// GetBalance cannot fail; the injected fault is a wrong answer (one unit too many), which is what
// makes the forwarder's balance precondition (or the sweep) fail.
func (b bankWrap) GetBalance(ctx context.Context, addr sdk.AccAddress, denom string) sdk.Coin {
	c := b.Keeper.GetBalance(ctx, addr, denom)
	if err := b.rec.hit("bank.GetBalance", addr.String()+" "+denom); err != nil {
		c.Amount = c.Amount.AddRaw(1)
	}
	return c
}

func (b bankWrap) SendCoinsFromModuleToModule(ctx context.Context, from, to string, amt sdk.Coins) error {
	if err := b.rec.hit("bank.SendCoinsFromModuleToModule", from+"->"+to+" "+amt.String()); err != nil {
		return err
	}
	return b.Keeper.SendCoinsFromModuleToModule(ctx, from, to, amt)
}

func (b bankWrap) SendCoins(ctx context.Context, from, to sdk.AccAddress, amt sdk.Coins) error {
	if err := b.rec.hit("bank.SendCoins", from.String()+"->"+to.String()+" "+amt.String()); err != nil {
		return err
	}
	return b.Keeper.SendCoins(ctx, from, to, amt)
}

func (b bankWrap) BlockedAddr(addr sdk.AccAddress) bool { return b.Keeper.BlockedAddr(addr) }

// ---- CCTP message server wrapper ----

type cctpWrap struct {
	real cctptypes.MsgServer
	rec  *Recorder
}

func (c cctpWrap) DepositForBurn(ctx context.Context, m *cctptypes.MsgDepositForBurn) (*cctptypes.MsgDepositForBurnResponse, error) {
	if err := c.rec.hit("cctp.DepositForBurn", m); err != nil {
		return nil, err
	}
	return c.real.DepositForBurn(ctx, m)
}

func (c cctpWrap) DepositForBurnWithCaller(ctx context.Context, m *cctptypes.MsgDepositForBurnWithCaller) (*cctptypes.MsgDepositForBurnWithCallerResponse, error) {
	if err := c.rec.hit("cctp.DepositForBurnWithCaller", m); err != nil {
		return nil, err
	}
	return c.real.DepositForBurnWithCaller(ctx, m)
}

func (c cctpWrap) ReplaceDepositForBurn(ctx context.Context, m *cctptypes.MsgReplaceDepositForBurn) (*cctptypes.MsgReplaceDepositForBurnResponse, error) {
	if err := c.rec.hit("cctp.ReplaceDepositForBurn", m); err != nil {
		return nil, err
	}
	return c.real.ReplaceDepositForBurn(ctx, m)
}

// ---- Hyperlane handler wrapper ----

type hypWrap struct {
	real forwardingtypes.HyperlaneHandler
	rec  *Recorder
}

func (h hypWrap) RemoteTransfer(ctx context.Context, m *warptypes.MsgRemoteTransfer) (*warptypes.MsgRemoteTransferResponse, error) {
	if err := h.rec.hit("hyp.RemoteTransfer", m); err != nil {
		return nil, err
	}
	return h.real.RemoteTransfer(ctx, m)
}

func (h hypWrap) Token(ctx context.Context, q *warptypes.QueryTokenRequest) (*warptypes.QueryTokenResponse, error) {
	if err := h.rec.hit("hyp.Token", q); err != nil {
		return nil, err
	}
	return h.real.Token(ctx, q)
}

// ---- internal (bank Msg/Send) wrapper ----

type internalWrap struct {
	real banktypes.MsgServer
	rec  *Recorder
}

func (i internalWrap) Send(ctx context.Context, m *banktypes.MsgSend) (*banktypes.MsgSendResponse, error) {
	if err := i.rec.hit("bank.Msg/Send", m); err != nil {
		return nil, err
	}
	return i.real.Send(ctx, m)
}

// ---- event service wrapper ----

type eventWrap struct {
	real event.Service
	rec  *Recorder
}

func (e eventWrap) EventManager(ctx context.Context) event.Manager {
	return eventMgr{real: e.real.EventManager(ctx), rec: e.rec}
}

type eventMgr struct {
	real event.Manager
	rec  *Recorder
}

func (m eventMgr) Emit(ctx context.Context, ev protoiface.MessageV1) error {
	if err := m.rec.hit("event.Emit", fmt.Sprintf("%T", ev)); err != nil {
		return err
	}
	return m.real.Emit(ctx, ev)
}

func (m eventMgr) EmitKV(ctx context.Context, t string, attrs ...event.Attribute) error {
	return m.real.EmitKV(ctx, t, attrs...)
}

func (m eventMgr) EmitNonConsensus(ctx context.Context, ev protoiface.MessageV1) error {
	return m.real.EmitNonConsensus(ctx, ev)
}

// ---- wrapped IBC application ----

type appWrap struct {
	porttypes.IBCModule
	rec *Recorder
}

func (a appWrap) OnRecvPacket(ctx sdk.Context, p channeltypes.Packet, rel sdk.AccAddress) ibcexported.Acknowledgement {
	a.rec.hit("app.OnRecvPacket", "")
	switch a.rec.AppErr {
	case "before":
		a.rec.Fired = append(a.rec.Fired, "app.OnRecvPacket#before")
		return channeltypes.NewErrorAcknowledgement(fmt.Errorf("injected application failure"))
	case "after":
		a.IBCModule.OnRecvPacket(ctx, p, rel)
		a.rec.Fired = append(a.rec.Fired, "app.OnRecvPacket#after")
		return channeltypes.NewErrorAcknowledgement(fmt.Errorf("injected application failure after partial work"))
	}
	return a.IBCModule.OnRecvPacket(ctx, p, rel)
}

// Stack is the alternative wiring.
type Stack struct {
	Keeper *keeper.Keeper
	Rec    *Recorder
	Module porttypes.IBCModule // entrypoint(appWrap(transfer)) over the alternative keeper
}

// Options selects extra controllers.
type Options struct {
	// ExtraActions are registered next to (or instead of) the fee controller.
	ExtraActions []orbitertypes.ActionController
	// NoFee leaves the fee controller out.
	NoFee bool
}

// New builds the alternative stack over the world's stores.
func New(w *world.World, opt Options) (*Stack, error) {
	app := w.App
	rec := &Recorder{Count: map[string]int{}, Plan: Plan{}}
	logger := log.NewNopLogger()
	evs := eventWrap{real: runtime.EventService{}, rec: rec}
	bank := bankWrap{Keeper: app.BankKeeper, rec: rec}
	k := keeper.NewKeeper(
		w.Cdc,
		authcodec.NewBech32Codec("noble"),
		logger,
		evs,
		runtime.NewKVStoreService(app.GetKey("orbiter")),
		app.OrbiterKeeper.Authority(),
		bank,
	)
	cctp, err := forwardingctrl.NewCCTPController(logger, cctpWrap{real: cctpkeeper.NewMsgServerImpl(app.CCTPKeeper), rec: rec})
	if err != nil {
		return nil, err
	}
	hyp, err := forwardingctrl.NewHyperlaneController(logger, hypWrap{
		real: forwardingtypes.NewHyperlaneHandler(warpkeeper.NewMsgServerImpl(app.WarpKeeper), warpkeeper.NewQueryServerImpl(app.WarpKeeper)),
		rec:  rec,
	})
	if err != nil {
		return nil, err
	}
	internal, err := forwardingctrl.NewInternalController(logger, internalWrap{real: bankkeeper.NewMsgServerImpl(app.BankKeeper), rec: rec})
	if err != nil {
		return nil, err
	}
	if err := k.SetForwardingControllers(cctp, hyp, internal); err != nil {
		return nil, err
	}
	var actions []orbitertypes.ActionController
	if !opt.NoFee {
		fee, err := actionctrl.NewFeeController(logger, evs, bank)
		if err != nil {
			return nil, err
		}
		actions = append(actions, fee)
	}
	actions = append(actions, opt.ExtraActions...)
	if err := k.SetActionControllers(actions...); err != nil {
		return nil, err
	}
	ibc, err := adapterctrl.NewIBCAdapter(w.Cdc, logger)
	if err != nil {
		return nil, err
	}
	if err := k.SetAdapterControllers(ibc); err != nil {
		return nil, err
	}
	mod := entrypoint.NewIBCMiddleware(
		appWrap{IBCModule: transfer.NewIBCModule(app.TransferKeeper), rec: rec},
		app.IBCKeeper.ChannelKeeper,
		k.Adapter(),
	)
	return &Stack{Keeper: k, Rec: rec, Module: mod}, nil
}
