// orbcheck is the single entry point of the verification harness.
//
//	orbcheck check <ID> [-tier quick|thorough] [-seed N]   orchestrate shard workers, write evidence
//	orbcheck shard <ID> -tier T -seed N -shard i -of n -out FILE   one worker
//	orbcheck replay <file>                                 show a stored witness
package main

import (
	"encoding/json"
	"flag"
	"fmt"
	"math/rand"
	"os"
	"os/exec"
	"path/filepath"
	"runtime"
	"sort"
	"strconv"
	"strings"
	"sync"
	"time"

	"orbverif/checks"
	"orbverif/fw"
)

// verifDir is the framework directory (evidence, known findings, scratch); bin/check exports it.
var verifDir = func() string {
	if d := os.Getenv("VERIF_DIR"); d != "" {
		return d
	}
	return "/verif"
}()

func main() {
	if len(os.Args) < 2 {
		usage()
	}
	switch os.Args[1] {
	case "check":
		os.Exit(cmdCheck(os.Args[2:]))
	case "shard":
		os.Exit(cmdShard(os.Args[2:]))
	case "replay":
		os.Exit(cmdReplay(os.Args[2:]))
	case "racerun":
		seed, _ := strconv.ParseInt(os.Args[2], 10, 64)
		blocks, _ := strconv.Atoi(os.Args[3])
		worlds, _ := strconv.Atoi(os.Args[4])
		counts, err := checks.RaceWorkload(seed, blocks, worlds)
		for k, v := range counts {
			fmt.Printf("RACE-WORKLOAD %s %d\n", k, v)
		}
		if err != nil {
			fmt.Printf("RACE-DIVERGED %v\n", err)
			os.Exit(3)
		}
	case "c19replay":
		if err := checks.C19ReplayMain(os.Args[2], os.Args[3]); err != nil {
			fmt.Fprintln(os.Stderr, err)
			os.Exit(2)
		}
	case "list":
		var ids []string
		for id := range checks.Registry {
			ids = append(ids, id)
		}
		sort.Strings(ids)
		fmt.Println(strings.Join(ids, " "))
	default:
		usage()
	}
}

func usage() {
	fmt.Fprintln(os.Stderr, "usage: orbcheck check|shard|replay|list ...")
	os.Exit(2)
}

func envInt(name string, def int64) int64 {
	if v := os.Getenv(name); v != "" {
		if n, err := strconv.ParseInt(v, 10, 64); err == nil {
			return n
		}
	}
	return def
}

func cmdShard(args []string) int {
	fs := flag.NewFlagSet("shard", flag.ExitOnError)
	tier := fs.String("tier", "quick", "")
	seed := fs.Int64("seed", 1, "")
	shard := fs.Int("shard", 0, "")
	of := fs.Int("of", 1, "")
	out := fs.String("out", "", "")
	journal := fs.String("journal", "", "")
	id := args[0]
	fs.Parse(args[1:])
	def, ok := checks.Registry[id]
	if !ok {
		fmt.Fprintln(os.Stderr, "unknown check", id)
		return 2
	}
	res := fw.NewResult(id)
	env := &fw.Env{
		Property: id, Tier: *tier, Seed: *seed, Shard: *shard, Shards: *of,
		R:   rand.New(rand.NewSource(*seed*1000003 + int64(*shard)*7919 + 17)),
		Res: res,
	}
	if *journal != "" {
		if f, err := os.Create(*journal); err == nil {
			env.Journal = f
			defer f.Close()
		}
	}
	def.Run(env)
	bz, err := json.Marshal(res)
	if err != nil {
		fmt.Fprintln(os.Stderr, "marshal result:", err)
		return 2
	}
	if err := os.WriteFile(*out, bz, 0o644); err != nil {
		fmt.Fprintln(os.Stderr, "write result:", err)
		return 2
	}
	return 0
}

func cmdCheck(args []string) int {
	fs := flag.NewFlagSet("check", flag.ExitOnError)
	tierF := fs.String("tier", "", "")
	seedF := fs.Int64("seed", -1, "")
	id := args[0]
	fs.Parse(args[1:])
	def, ok := checks.Registry[id]
	if !ok {
		fmt.Fprintln(os.Stderr, "unknown check", id)
		return 2
	}
	tier := *tierF
	if tier == "" {
		tier = os.Getenv("VERIF_TIER")
	}
	if tier != "thorough" {
		tier = "quick"
	}
	seed := *seedF
	if seed < 0 {
		seed = envInt("VERIF_SEED", 1)
	}
	t0 := time.Now()
	n := runtime.NumCPU()
	if n > 16 {
		n = 16
	}
	if def.MaxShards > 0 && n > def.MaxShards {
		n = def.MaxShards
	}
	if v := envInt("VERIF_SHARDS", 0); v > 0 {
		n = int(v)
	}
	work := filepath.Join(verifDir, ".work", fmt.Sprintf("%s-%s-%d-%d", id, tier, seed, os.Getpid()))
	os.MkdirAll(work, 0o755)
	self, _ := os.Executable()

	watchdog := 20 * time.Minute
	if tier == "thorough" {
		watchdog = 3 * time.Hour
	}
	type shardOut struct {
		res      *fw.Result
		err      string
		timedOut bool
		journal  string
	}
	outs := make([]shardOut, n)
	var wg sync.WaitGroup
	for i := 0; i < n; i++ {
		wg.Add(1)
		go func(i int) {
			defer wg.Done()
			outFile := filepath.Join(work, fmt.Sprintf("shard_%d.json", i))
			logFile := filepath.Join(work, fmt.Sprintf("shard_%d.log", i))
			jFile := filepath.Join(work, fmt.Sprintf("shard_%d.journal", i))
			lf, _ := os.Create(logFile)
			defer lf.Close()
			cmd := exec.Command(self, "shard", id, "-tier", tier, "-seed", fmt.Sprint(seed),
				"-shard", fmt.Sprint(i), "-of", fmt.Sprint(n), "-out", outFile, "-journal", jFile)
			cmd.Stdout, cmd.Stderr = lf, lf
			if err := cmd.Start(); err != nil {
				outs[i].err = err.Error()
				return
			}
			done := make(chan error, 1)
			go func() { done <- cmd.Wait() }()
			select {
			case err := <-done:
				if err != nil {
					outs[i].err = err.Error()
				}
			case <-time.After(watchdog):
				cmd.Process.Kill()
				<-done
				outs[i].timedOut = true
				return
			}
			bz, err := os.ReadFile(outFile)
			if err != nil {
				if outs[i].err == "" {
					outs[i].err = "no result file"
				}
				jb, _ := os.ReadFile(jFile)
				outs[i].journal = string(jb)
				return
			}
			var r fw.Result
			if err := json.Unmarshal(bz, &r); err != nil {
				outs[i].err = "bad result file: " + err.Error()
				return
			}
			outs[i].res = &r
		}(i)
	}
	wg.Wait()

	merged := fw.NewResult(id)
	var dead []string
	inconclusive := false
	for i, o := range outs {
		switch {
		case o.timedOut:
			inconclusive = true
			merged.Inconc("shard %d hit the wall-clock watchdog", i)
		case o.res == nil:
			tail := tailFile(filepath.Join(work, fmt.Sprintf("shard_%d.log", i)), 40)
			dead = append(dead, fmt.Sprintf("shard %d died (%s); last input: %s; log tail: %s", i, o.err, o.journal, tail))
		default:
			merged.Merge(o.res)
		}
	}
	known, err := fw.LoadKnown(filepath.Join(verifDir, "known_findings.json"))
	if err != nil {
		fmt.Fprintln(os.Stderr, "known findings:", err)
		return 2
	}

	exit := 0
	var fresh []fw.Violation
	knownHits := map[string]int{}
	for _, v := range merged.Violations {
		matched := false
		for _, k := range known {
			if k.Matches(v) {
				knownHits[fmt.Sprintf("property=%s %s", k.Property, k.What)]++
				matched = true
				break
			}
		}
		if !matched {
			fresh = append(fresh, v)
		}
	}
	// a dead worker is a C14 violation when C14 is being checked (the journal names the input),
	// otherwise the run is inconclusive.
	for _, d := range dead {
		if id == "C14" {
			fresh = append(fresh, fw.Violation{Property: "C14", Kind: "worker-died", Detail: d})
		} else {
			inconclusive = true
			merged.Inconc("%s", d)
		}
	}
	var hitKeys []string
	for k := range knownHits {
		hitKeys = append(hitKeys, k)
	}
	sort.Strings(hitKeys)
	for _, k := range hitKeys {
		fmt.Printf("KNOWN-FINDING: %s (seen %d time(s))\n", k, knownHits[k])
	}
	os.MkdirAll(filepath.Join(verifDir, "replays"), 0o755)
	seen := map[string]bool{}
	for i, v := range fresh {
		if seen[v.Key()] {
			continue
		}
		seen[v.Key()] = true
		path := filepath.Join(verifDir, "replays", fmt.Sprintf("%s-%s-seed%d-%d.json", id, tier, seed, i))
		bz, _ := json.MarshalIndent(map[string]any{"property": id, "tier": tier, "seed": seed, "violation": v}, "", " ")
		os.WriteFile(path, bz, 0o644)
		fmt.Printf("VIOLATION property=%s replay=%s\n", id, path)
		fmt.Printf("  kind=%s %s\n", v.Key(), trunc(v.Detail, 600))
		exit = 1
	}
	if merged.Counters["inconclusive_fatal"] > 0 {
		inconclusive = true
	}
	distinct := len(merged.Signatures)
	if exit == 0 && (inconclusive || distinct < def.MinSigs || merged.Evaluations == 0) {
		if distinct < def.MinSigs {
			merged.Inconc("only %d distinct non-trivial signatures observed (minimum %d)", distinct, def.MinSigs)
		}
		fmt.Printf("INCONCLUSIVE property=%s %s\n", id, strings.Join(merged.Inconclusive, " | "))
		exit = 2
	}

	// evidence
	sigs := make([]string, 0, len(merged.Signatures))
	for k := range merged.Signatures {
		sigs = append(sigs, k)
	}
	sort.Strings(sigs)
	sigSample := sigs
	if len(sigSample) > 60 {
		step := len(sigSample) / 60
		var s2 []string
		for i := 0; i < len(sigSample); i += step {
			s2 = append(s2, sigSample[i])
		}
		sigSample = s2
	}
	samples := merged.Samples
	if len(samples) == 0 {
		samples = []any{"(no sample recorded)"}
	}
	cov := map[string]any{
		"evaluations":         merged.Evaluations,
		"distinct_nontrivial": distinct,
		"rule":                def.Rule,
		"samples":             samples,
		"counters":            merged.Counters,
		"signature_sample":    sigSample,
		"cross_observations":  merged.Cross,
		"cross_samples":       merged.CrossSamples,
		"inconclusive":        merged.Inconclusive,
		"known_findings_hit":  knownHits,
		"notes":               merged.Notes,
		"shards":              n,
	}
	if def.Exhaustive {
		cov["exhaustive"] = true
	}
	ev := map[string]any{
		"property_id": id,
		"tier":        tier,
		"seed":        seed,
		"level":       def.Level,
		"coverage":    cov,
		"assumptions": def.Assumptions,
		"wall_s":      time.Since(t0).Seconds(),
		"violations":  len(fresh),
	}
	os.MkdirAll(filepath.Join(verifDir, "evidence"), 0o755)
	bz, _ := json.MarshalIndent(ev, "", " ")
	if err := os.WriteFile(filepath.Join(verifDir, "evidence", id+".json"), bz, 0o644); err != nil {
		fmt.Fprintln(os.Stderr, "write evidence:", err)
		return 2
	}
	fmt.Printf("%s %s seed=%d: %d evaluations, %d distinct non-trivial signatures, %d violation(s), %d known finding(s), %.1fs\n",
		id, tier, seed, merged.Evaluations, distinct, len(fresh), len(knownHits), time.Since(t0).Seconds())
	if exit == 0 {
		os.RemoveAll(work)
	}
	return exit
}

func trunc(s string, n int) string {
	if len(s) > n {
		return s[:n] + "…"
	}
	return s
}

func tailFile(path string, lines int) string {
	bz, err := os.ReadFile(path)
	if err != nil {
		return ""
	}
	ls := strings.Split(strings.TrimSpace(string(bz)), "\n")
	if len(ls) > lines {
		ls = ls[len(ls)-lines:]
	}
	return strings.Join(ls, " ⏎ ")
}

func cmdReplay(args []string) int {
	if len(args) < 1 {
		usage()
	}
	bz, err := os.ReadFile(args[0])
	if err != nil {
		fmt.Fprintln(os.Stderr, err)
		return 2
	}
	fmt.Println(string(bz))
	return 0
}
