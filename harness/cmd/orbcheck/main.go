package main

import (
	"fmt"
	"os"
	"time"

	sdkmath "cosmossdk.io/math"
	sdk "github.com/cosmos/cosmos-sdk/types"

	"orbverif/world"
)

func main() {
	t0 := time.Now()
	w, err := world.New(world.Config{})
	if err != nil {
		fmt.Println("ERR", err)
		os.Exit(2)
	}
	fmt.Println("world built in", time.Since(t0), "height", w.Height, "channels", w.Channels, "hyp", w.Hyp.TokenUSDC.String())
	if err := w.EnsureEscrow(w.K("alice"), world.USDC, sdkmath.NewInt(1_000_000_000)); err != nil {
		fmt.Println("ERR", err)
		os.Exit(2)
	}
	p := w.Channels[0]
	memo := fmt.Sprintf(`{"orbiter":{"forwarding":{"protocol_id":"PROTOCOL_INTERNAL","attributes":{"@type":"/noble.orbiter.controller.forwarding.v1.InternalAttributes","recipient":"%s"}}}}`, w.K("rcpt1").String())
	ctx := w.Branch()
	before := w.Snapshot(ctx)
	pkt := w.ForgePacket(ctx, p, world.ICS20("transfer/"+p.B+"/uusdc", "1000", w.K("bob").String(), world.OrbiterAddr().String(), memo))
	r := w.RecvH(ctx, pkt)
	fmt.Println(r); dbg(r)
	fmt.Println(world.Diff(before, w.Snapshot(ctx)))
	_ = sdk.Coin{}
}

func init() {
	dbg = func(r world.RecvResult) {
		for _, e := range r.Events {
			fmt.Print(e.Type, "{")
			for _, a := range e.Attributes {
				v := a.Value
				if len(v) > 60 {
					v = v[:60]
				}
				fmt.Print(a.Key, "=", v, ",")
			}
			fmt.Println("}")
		}
	}
}

var dbg func(world.RecvResult)
