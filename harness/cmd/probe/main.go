package main

import (
	"fmt"
	"math/big"
	"math/rand"

	"orbverif/checks"
	"orbverif/run"
	"orbverif/spec"
	"orbverif/world"
)

func main() {
	l, err := checks.NewLab(world.Config{})
	if err != nil {
		panic(err)
	}
	r := rand.New(rand.NewSource(1))
	ctx, _ := l.Base.CacheContext()
	d := l.PickDest(r, world.USDC)
	// step 1: fee recipient = dust collector address
	s := &spec.Spec{HasFee: true, Fees: []spec.Fee{{Recipient: world.DustAddr().String(), IsBPS: true, BPS: 10}}, Route: d.Make(r)}
	o := run.Do(l.W, ctx, l.NewTransfer(r, world.USDC, big.NewInt(1_000_000), s), run.Mode{Kind: "H"})
	fmt.Println("step1:", o.Res.String(), o.Delta)
	// step 2: deposit + ordinary transfer
	fmt.Println("deposit:", checks.Deposit(l.W, ctx, l.W.K("carol"), world.USDC, big.NewInt(5)))
	o = run.Do(l.W, ctx, l.NewTransfer(r, world.USDC, big.NewInt(1_000_000), &spec.Spec{Route: d.Make(r)}), run.Mode{Kind: "H"})
	fmt.Println("step2:", o.Res.String(), o.Res.PanicAt)
}
