package main

import (
	"fmt"
	"math/big"
	"math/rand"

	"github.com/cosmos/cosmos-sdk/types/query"

	dispatchercomp "github.com/noble-assets/orbiter/v2/keeper/component/dispatcher"
	dispatchertypes "github.com/noble-assets/orbiter/v2/types/component/dispatcher"

	"orbverif/checks"
	"orbverif/run"
	"orbverif/spec"
	"orbverif/world"
)

func main() {
	l, err := checks.NewLab(world.Config{Channels: 4})
	if err != nil {
		panic(err)
	}
	r := rand.New(rand.NewSource(1))
	ctx, _ := l.Base.CacheContext()
	for i := 0; i < 80; i++ {
		d := l.PickDest(r, world.USDC)
		t := l.NewTransfer(r, world.USDC, big.NewInt(1000), &spec.Spec{Route: d.Make(r)})
		o := run.Do(l.W, ctx, t, run.Mode{Kind: "H"})
		_ = o
	}
	q := dispatchercomp.NewQueryServer(l.W.App.OrbiterKeeper.Dispatcher())
	for _, rev := range []bool{false, true} {
		var key []byte
		for p := 0; p < 60; p++ {
			resp, err := q.DispatchedCountsBySourceProtocolID(ctx, &dispatchertypes.QueryDispatchedCountsByProtocolIDRequest{ProtocolId: "PROTOCOL_IBC",
				Pagination: &query.PageRequest{Key: key, Limit: 1, Reverse: rev}})
			if err != nil {
				fmt.Println("err", err)
				break
			}
			for _, c := range resp.Counts {
				fmt.Printf("  rev=%v page %d: %s|%s -> %d|%s = %d\n", rev, p, c.SourceId.ProtocolId, c.SourceId.CounterpartyId, c.DestinationId.ProtocolId, c.DestinationId.CounterpartyId, c.Count)
			}
			fmt.Printf("  next=%x\n", resp.Pagination.NextKey)
			if len(resp.Pagination.NextKey) == 0 {
				break
			}
			key = resp.Pagination.NextKey
		}
	}
	for _, rev := range []bool{false, true} {
		var key []byte
		for p := 0; p < 60; p++ {
			resp, err := q.DispatchedAmountsBySourceProtocolID(ctx, &dispatchertypes.QueryDispatchedAmountsByProtocolIDRequest{ProtocolId: "PROTOCOL_IBC",
				Pagination: &query.PageRequest{Key: key, Limit: 1, Reverse: rev}})
			if err != nil {
				fmt.Println("err", err)
				break
			}
			for _, c := range resp.Amounts {
				fmt.Printf("  AMT rev=%v page %d: %s|%s -> %d|%s %s\n", rev, p, c.SourceId.ProtocolId, c.SourceId.CounterpartyId, c.DestinationId.ProtocolId, c.DestinationId.CounterpartyId, c.Denom)
			}
			fmt.Printf("  next=%x\n", resp.Pagination.NextKey)
			if len(resp.Pagination.NextKey) == 0 {
				break
			}
			key = resp.Pagination.NextKey
		}
	}
}
