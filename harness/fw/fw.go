// Package fw is the check framework: shard workers record what their monitors observed, the
// orchestrator merges shards, matches violations against the committed known-findings file and
// writes the evidence file.
package fw

import (
	"encoding/json"
	"fmt"
	"math/rand"
	"os"
	"sort"
	"strings"
)

// Violation is one refutation of a property, with the witness needed to replay it.
type Violation struct {
	Property string            `json:"property"`
	Kind     string            `json:"kind"` // stable machine-readable class of the failure
	Tags     map[string]string `json:"tags,omitempty"`
	Detail   string            `json:"detail"`
	Witness  any               `json:"witness,omitempty"`
}

// Key identifies a violation class for de-duplication.
func (v Violation) Key() string {
	keys := make([]string, 0, len(v.Tags))
	for k := range v.Tags {
		keys = append(keys, k)
	}
	sort.Strings(keys)
	var sb strings.Builder
	sb.WriteString(v.Property + "/" + v.Kind)
	for _, k := range keys {
		sb.WriteString("," + k + "=" + v.Tags[k])
	}
	return sb.String()
}

// Result is what one shard (or the merged run) observed.
type Result struct {
	Property     string            `json:"property"`
	Evaluations  int               `json:"evaluations"`
	Signatures   map[string]int    `json:"signatures"` // distinct non-trivial case signatures -> hits
	Samples      []any             `json:"samples"`
	Counters     map[string]int    `json:"counters"`
	Violations   []Violation       `json:"violations"`
	Cross        map[string]int    `json:"cross_observations"` // other-property monitor hits during this workload
	CrossSamples []Violation       `json:"cross_samples,omitempty"`
	Inconclusive []string          `json:"inconclusive"`
	Notes        map[string]string `json:"notes,omitempty"`
	violSeen     map[string]int
}

// NewResult makes an empty result.
func NewResult(prop string) *Result {
	return &Result{
		Property: prop, Signatures: map[string]int{}, Counters: map[string]int{},
		Cross: map[string]int{}, Notes: map[string]string{}, violSeen: map[string]int{},
	}
}

// Eval counts one evaluated case.
func (r *Result) Eval() { r.Evaluations++ }

// Sig records a non-trivial case signature (monitor precondition held).
func (r *Result) Sig(format string, a ...any) { r.Signatures[fmt.Sprintf(format, a...)]++ }

// Count bumps a named counter.
func (r *Result) Count(name string) { r.Counters[name]++ }

// CountN adds to a named counter.
func (r *Result) CountN(name string, n int) { r.Counters[name] += n }

// Sample keeps up to 6 concrete cases.
func (r *Result) Sample(s any) {
	if len(r.Samples) < 6 {
		r.Samples = append(r.Samples, s)
	}
}

// Violate records a violation (at most 3 witnesses per class are kept).
func (r *Result) Violate(v Violation) {
	if v.Property == "" {
		v.Property = r.Property
	}
	if v.Property != r.Property {
		// another property's universal monitor fired during this workload
		r.Cross[v.Key()]++
		if r.Cross[v.Key()] == 1 && len(r.CrossSamples) < 8 {
			r.CrossSamples = append(r.CrossSamples, v)
		}
		return
	}
	k := v.Key()
	if r.violSeen == nil {
		r.violSeen = map[string]int{}
	}
	r.violSeen[k]++
	r.Counters["violations_raw"]++
	if r.violSeen[k] <= 3 {
		r.Violations = append(r.Violations, v)
	}
}

// Inconc records an inconclusive observation.
func (r *Result) Inconc(format string, a ...any) {
	if len(r.Inconclusive) < 20 {
		r.Inconclusive = append(r.Inconclusive, fmt.Sprintf(format, a...))
	}
	r.Counters["inconclusive"]++
}

// Fatal records an observation that makes the whole run inconclusive (infrastructure failed, a
// monitor could not observe anything).
func (r *Result) Fatal(format string, a ...any) {
	r.Inconc(format, a...)
	r.Counters["inconclusive_fatal"]++
}

// Merge folds o into r.
func (r *Result) Merge(o *Result) {
	r.Evaluations += o.Evaluations
	for k, v := range o.Signatures {
		r.Signatures[k] += v
	}
	for k, v := range o.Counters {
		r.Counters[k] += v
	}
	for k, v := range o.Cross {
		r.Cross[k] += v
	}
	for k, v := range o.Notes {
		r.Notes[k] = v
	}
	for _, s := range o.Samples {
		r.Sample(s)
	}
	for _, v := range o.CrossSamples {
		if len(r.CrossSamples) < 8 {
			r.CrossSamples = append(r.CrossSamples, v)
		}
	}
	for _, v := range o.Violations {
		k := v.Key()
		if r.violSeen == nil {
			r.violSeen = map[string]int{}
		}
		r.violSeen[k]++
		if r.violSeen[k] <= 3 {
			r.Violations = append(r.Violations, v)
		}
	}
	for _, s := range o.Inconclusive {
		if len(r.Inconclusive) < 20 {
			r.Inconclusive = append(r.Inconclusive, s)
		}
	}
}

// Env is what a check function gets.
type Env struct {
	Property string
	Tier     string // quick | thorough
	Seed     int64
	Shard    int
	Shards   int
	R        *rand.Rand
	Res      *Result
	Journal  *os.File // optional: current input written before execution
}

// Thorough reports the thorough tier.
func (e *Env) Thorough() bool { return e.Tier == "thorough" }

// N picks the case count for the tier, divided over shards (at least 1).
// QuickScale multiplies the quick-tier case counts.
const QuickScale = 4

// ThoroughScale multiplies the thorough-tier case counts (a thorough run takes minutes).
const ThoroughScale = 3

func (e *Env) N(quick, thorough int) int {
	// QuickScale: the quick tier runs a multiple of the per-check base counts (they were sized
	// when a quick run took 1-3 s; a quick run may take half a minute)
	n := quick * QuickScale
	if n > thorough {
		n = thorough
	}
	if e.Thorough() {
		n = thorough * ThoroughScale
	}
	per := n / e.Shards
	if e.Shard < n%e.Shards {
		per++
	}
	if per < 1 {
		per = 1
	}
	return per
}

// Mine reports whether item i of a systematic enumeration belongs to this shard.
func (e *Env) Mine(i int) bool { return i%e.Shards == e.Shard }

// Log writes the current input to the journal before execution (crash forensics).
func (e *Env) Log(v any) {
	if e.Journal == nil {
		return
	}
	bz, _ := json.Marshal(v)
	e.Journal.Truncate(0)
	e.Journal.Seek(0, 0)
	e.Journal.Write(bz)
}

// KnownFinding is an entry of /verif/known_findings.json.
type KnownFinding struct {
	Status   string            `json:"status"` // "known" | "fixed"
	Property string            `json:"property"`
	Kind     string            `json:"kind"`
	Match    map[string]string `json:"match,omitempty"` // all tags must match
	What     string            `json:"what"`
	Commit   string            `json:"commit,omitempty"`
}

// Matches reports whether the finding covers the violation (only status "known" suppresses).
func (k KnownFinding) Matches(v Violation) bool {
	if k.Status != "known" || k.Property != v.Property || k.Kind != v.Kind {
		return false
	}
	for key, want := range k.Match {
		if v.Tags[key] != want {
			return false
		}
	}
	return true
}

// LoadKnown reads the known-findings file.
func LoadKnown(path string) ([]KnownFinding, error) {
	bz, err := os.ReadFile(path)
	if err != nil {
		if os.IsNotExist(err) {
			return nil, nil
		}
		return nil, err
	}
	var f struct {
		Findings []KnownFinding `json:"findings"`
	}
	if err := json.Unmarshal(bz, &f); err != nil {
		return nil, err
	}
	return f.Findings, nil
}
