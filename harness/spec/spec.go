// Package spec describes orbiter payloads as plain data and renders them to memo JSON by hand,
// without using any code of the module under test. Monitors read the spec, never the memo.
package spec

import (
	"encoding/base64"
	"encoding/json"
	"fmt"
	"strings"
)

const (
	TypeCCTP     = "/noble.orbiter.controller.forwarding.v1.CCTPAttributes"
	TypeHyp      = "/noble.orbiter.controller.forwarding.v1.HypAttributes"
	TypeInternal = "/noble.orbiter.controller.forwarding.v1.InternalAttributes"
	TypeFee      = "/noble.orbiter.controller.action.v2.FeeAttributes"
)

// Fee is one entry of a fee action: exactly one of BPS / Amount is used.
type Fee struct {
	Recipient string  `json:"recipient"`
	IsBPS     bool    `json:"is_bps"`
	BPS       uint64  `json:"bps,omitempty"`    // rendered as a JSON number (may exceed uint32 on purpose)
	Amount    string  `json:"amount,omitempty"` // rendered verbatim as a JSON string
	Raw       *string `json:"raw,omitempty"`    // if set, rendered verbatim instead of the entry
}

// Route names the outgoing route and its parameters.
type Route struct {
	Kind string `json:"kind"` // "cctp", "hyp", "internal"
	// ProtocolOverride, if non-empty, is rendered as protocol_id instead of the kind's own id.
	ProtocolOverride string `json:"protocol_override,omitempty"`

	// CCTP
	Domain        uint32 `json:"domain"`
	MintRecipient []byte `json:"mint_recipient,omitempty"`
	Caller        []byte `json:"caller,omitempty"`

	// Hyperlane (Domain shared)
	TokenID   []byte  `json:"token_id,omitempty"`
	Recipient []byte  `json:"recipient,omitempty"`
	HookID    []byte  `json:"hook_id,omitempty"`
	Metadata  string  `json:"metadata,omitempty"`
	GasLimit  *string `json:"gas_limit,omitempty"` // nil = field absent
	MaxFee    *Coin   `json:"max_fee,omitempty"`   // nil = field absent

	// Internal
	To string `json:"to,omitempty"`
}

// Coin is a textual coin.
type Coin struct {
	Denom  string `json:"denom"`
	Amount string `json:"amount"`
}

// Spec is a whole payload.
type Spec struct {
	HasFee      bool   `json:"has_fee"`
	Fees        []Fee  `json:"fees,omitempty"`
	Route       Route  `json:"route"`
	Passthrough []byte `json:"passthrough,omitempty"`
}

func b64(b []byte) string { return base64.StdEncoding.EncodeToString(b) }

func q(s string) string {
	bz, _ := json.Marshal(s)
	return string(bz)
}

// ProtocolName returns the protocol_id rendered for the route.
func (r Route) ProtocolName() string {
	if r.ProtocolOverride != "" {
		return r.ProtocolOverride
	}
	switch r.Kind {
	case "cctp":
		return "PROTOCOL_CCTP"
	case "hyp":
		return "PROTOCOL_HYPERLANE"
	case "internal":
		return "PROTOCOL_INTERNAL"
	}
	return "PROTOCOL_UNSUPPORTED"
}

// ProtocolNum returns the numeric protocol id of the route kind.
func (r Route) ProtocolNum() int32 {
	switch r.Kind {
	case "cctp":
		return 2
	case "hyp":
		return 3
	case "internal":
		return 4
	}
	return 0
}

// Counterparty returns the destination counterparty id under which transfers are recorded.
func (r Route) Counterparty() string {
	switch r.Kind {
	case "cctp", "hyp":
		return fmt.Sprintf("%d", r.Domain)
	case "internal":
		return "noble"
	}
	return ""
}

// AttributesJSON renders the forwarding attributes object.
func (r Route) AttributesJSON() string {
	var sb strings.Builder
	switch r.Kind {
	case "cctp":
		fmt.Fprintf(&sb, `{"@type":%s,"destination_domain":%d,"mint_recipient":%s,"destination_caller":%s}`,
			q(TypeCCTP), r.Domain, q(b64(r.MintRecipient)), q(b64(r.Caller)))
	case "hyp":
		fmt.Fprintf(&sb, `{"@type":%s,"token_id":%s,"destination_domain":%d,"recipient":%s,"custom_hook_id":%s,"custom_hook_metadata":%s`,
			q(TypeHyp), q(b64(r.TokenID)), r.Domain, q(b64(r.Recipient)), q(b64(r.HookID)), q(r.Metadata))
		if r.GasLimit != nil {
			fmt.Fprintf(&sb, `,"gas_limit":%s`, q(*r.GasLimit))
		}
		if r.MaxFee != nil {
			fmt.Fprintf(&sb, `,"max_fee":{"denom":%s,"amount":%s}`, q(r.MaxFee.Denom), q(r.MaxFee.Amount))
		}
		sb.WriteString("}")
	case "internal":
		fmt.Fprintf(&sb, `{"@type":%s,"recipient":%s}`, q(TypeInternal), q(r.To))
	}
	return sb.String()
}

// FeeJSON renders one fee entry.
func (f Fee) JSON() string {
	if f.Raw != nil {
		return *f.Raw
	}
	if f.IsBPS {
		return fmt.Sprintf(`{"recipient":%s,"basis_points":{"value":%d}}`, q(f.Recipient), f.BPS)
	}
	return fmt.Sprintf(`{"recipient":%s,"amount":{"value":%s}}`, q(f.Recipient), q(f.Amount))
}

// FeeActionJSON renders the fee action.
func FeeActionJSON(fees []Fee) string {
	parts := make([]string, len(fees))
	for i, f := range fees {
		parts[i] = f.JSON()
	}
	return fmt.Sprintf(`{"id":"ACTION_FEE","attributes":{"@type":%s,"fees_info":[%s]}}`, q(TypeFee), strings.Join(parts, ","))
}

// PayloadJSON renders the payload object (the value of the "orbiter" key).
func (s Spec) PayloadJSON() string {
	var sb strings.Builder
	sb.WriteString("{")
	if s.HasFee {
		sb.WriteString(`"pre_actions":[` + FeeActionJSON(s.Fees) + `],`)
	}
	fmt.Fprintf(&sb, `"forwarding":{"protocol_id":%s,"attributes":%s,"passthrough_payload":%s}`,
		q(s.Route.ProtocolName()), s.Route.AttributesJSON(), q(b64(s.Passthrough)))
	sb.WriteString("}")
	return sb.String()
}

// Memo renders the ICS-20 memo.
func (s Spec) Memo() string {
	return `{"orbiter":` + s.PayloadJSON() + `}`
}

// Signature is a coarse equivalence class of the spec, used for coverage counting.
func (s Spec) Signature() string {
	var fs []string
	for _, f := range s.Fees {
		if f.IsBPS {
			fs = append(fs, "b")
		} else {
			fs = append(fs, "a")
		}
	}
	fee := "nofee"
	if s.HasFee {
		fee = "fee[" + strings.Join(fs, "") + "]"
	}
	extra := ""
	switch s.Route.Kind {
	case "cctp":
		if len(s.Route.Caller) > 0 {
			extra = "+caller"
		}
	case "hyp":
		if len(s.Route.HookID) > 0 {
			extra += "+hook"
		}
		if s.Route.GasLimit != nil {
			extra += "+gas"
		}
		if s.Route.MaxFee != nil {
			extra += "+maxfee"
		}
		if s.Route.Metadata != "" {
			extra += "+meta"
		}
	}
	pt := ""
	if len(s.Passthrough) > 0 {
		pt = "+pt"
	}
	return fmt.Sprintf("%s:%d%s/%s%s", s.Route.Kind, s.Route.Domain, extra, fee, pt)
}
