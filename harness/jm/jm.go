// Package jm is a tiny order-preserving JSON tree with single-point mutations, used to derive
// hostile memos from valid ones. Objects are lists of pairs, so duplicate keys can be rendered.
package jm

import (
	"bytes"
	"encoding/json"
	"fmt"
	"strings"
)

type Kind int

const (
	Obj Kind = iota
	Arr
	Str
	Num
	Bool
	Null
	Raw // verbatim text
)

// Node is a JSON value.
type Node struct {
	Kind Kind
	Keys []string // Obj
	Vals []*Node  // Obj, Arr
	S    string   // Str (decoded), Num/Raw (text)
	B    bool
}

// Parse parses a JSON document preserving key order.
func Parse(s string) (*Node, error) {
	dec := json.NewDecoder(strings.NewReader(s))
	dec.UseNumber()
	n, err := parseValue(dec)
	if err != nil {
		return nil, err
	}
	return n, nil
}

func parseValue(dec *json.Decoder) (*Node, error) {
	tok, err := dec.Token()
	if err != nil {
		return nil, err
	}
	switch t := tok.(type) {
	case json.Delim:
		switch t {
		case '{':
			n := &Node{Kind: Obj}
			for dec.More() {
				kt, err := dec.Token()
				if err != nil {
					return nil, err
				}
				v, err := parseValue(dec)
				if err != nil {
					return nil, err
				}
				n.Keys = append(n.Keys, kt.(string))
				n.Vals = append(n.Vals, v)
			}
			_, err := dec.Token()
			return n, err
		case '[':
			n := &Node{Kind: Arr}
			for dec.More() {
				v, err := parseValue(dec)
				if err != nil {
					return nil, err
				}
				n.Vals = append(n.Vals, v)
			}
			_, err := dec.Token()
			return n, err
		}
		return nil, fmt.Errorf("unexpected delimiter %v", t)
	case string:
		return &Node{Kind: Str, S: t}, nil
	case json.Number:
		return &Node{Kind: Num, S: t.String()}, nil
	case bool:
		return &Node{Kind: Bool, B: t}, nil
	case nil:
		return &Node{Kind: Null}, nil
	}
	return nil, fmt.Errorf("unexpected token %v", tok)
}

// String renders the node.
func (n *Node) String() string {
	var sb bytes.Buffer
	n.render(&sb)
	return sb.String()
}

func (n *Node) render(sb *bytes.Buffer) {
	switch n.Kind {
	case Obj:
		sb.WriteByte('{')
		for i := range n.Keys {
			if i > 0 {
				sb.WriteByte(',')
			}
			k, _ := json.Marshal(n.Keys[i])
			sb.Write(k)
			sb.WriteByte(':')
			n.Vals[i].render(sb)
		}
		sb.WriteByte('}')
	case Arr:
		sb.WriteByte('[')
		for i := range n.Vals {
			if i > 0 {
				sb.WriteByte(',')
			}
			n.Vals[i].render(sb)
		}
		sb.WriteByte(']')
	case Str:
		k, _ := json.Marshal(n.S)
		sb.Write(k)
	case Num, Raw:
		sb.WriteString(n.S)
	case Bool:
		if n.B {
			sb.WriteString("true")
		} else {
			sb.WriteString("false")
		}
	case Null:
		sb.WriteString("null")
	}
}

// Clone deep-copies the node.
func (n *Node) Clone() *Node {
	c := &Node{Kind: n.Kind, S: n.S, B: n.B}
	c.Keys = append([]string(nil), n.Keys...)
	for _, v := range n.Vals {
		c.Vals = append(c.Vals, v.Clone())
	}
	return c
}

// Path addresses a node: a sequence of child indexes from the root.
type Path []int

// Site is one addressable node with its human-readable path.
type Site struct {
	Path   Path
	Name   string // e.g. orbiter.pre_actions[0].attributes.fees_info[1].recipient
	Kind   Kind
	Parent Kind // kind of the parent (Obj/Arr); Null for the root
	Key    string
}

// Sites enumerates every node of the tree (root included).
func Sites(root *Node) []Site {
	var out []Site
	var walk func(n *Node, p Path, name string, parent Kind, key string)
	walk = func(n *Node, p Path, name string, parent Kind, key string) {
		out = append(out, Site{Path: append(Path(nil), p...), Name: name, Kind: n.Kind, Parent: parent, Key: key})
		switch n.Kind {
		case Obj:
			for i, k := range n.Keys {
				nm := k
				if name != "" {
					nm = name + "." + k
				}
				walk(n.Vals[i], append(p, i), nm, Obj, k)
			}
		case Arr:
			for i := range n.Vals {
				walk(n.Vals[i], append(p, i), fmt.Sprintf("%s[%d]", name, i), Arr, "")
			}
		}
	}
	walk(root, nil, "", Null, "")
	return out
}

// At returns the node at path and its parent.
func At(root *Node, p Path) (n, parent *Node) {
	n = root
	for _, i := range p {
		parent = n
		n = n.Vals[i]
	}
	return n, parent
}

// Replace returns a copy of root with the node at p replaced by repl.
func Replace(root *Node, p Path, repl *Node) *Node {
	c := root.Clone()
	if len(p) == 0 {
		return repl
	}
	_, parent := At(c, p)
	parent.Vals[p[len(p)-1]] = repl
	return c
}

// Delete returns a copy of root with the node at p removed from its parent.
func Delete(root *Node, p Path) *Node {
	if len(p) == 0 {
		return &Node{Kind: Raw, S: ""}
	}
	c := root.Clone()
	_, parent := At(c, p)
	i := p[len(p)-1]
	parent.Vals = append(parent.Vals[:i], parent.Vals[i+1:]...)
	if parent.Kind == Obj {
		parent.Keys = append(parent.Keys[:i], parent.Keys[i+1:]...)
	}
	return c
}

// InsertKey returns a copy with key/val appended to the object at p (front=true: prepended).
func InsertKey(root *Node, p Path, key string, val *Node, front bool) *Node {
	c := root.Clone()
	n, _ := At(c, p)
	if n.Kind != Obj {
		return c
	}
	if front {
		n.Keys = append([]string{key}, n.Keys...)
		n.Vals = append([]*Node{val}, n.Vals...)
	} else {
		n.Keys = append(n.Keys, key)
		n.Vals = append(n.Vals, val)
	}
	return c
}

// AppendElem returns a copy with val appended to the array at p.
func AppendElem(root *Node, p Path, val *Node) *Node {
	c := root.Clone()
	n, _ := At(c, p)
	if n.Kind == Arr {
		n.Vals = append(n.Vals, val)
	}
	return c
}

func N(k Kind) *Node            { return &Node{Kind: k} }
func S(s string) *Node          { return &Node{Kind: Str, S: s} }
func Number(s string) *Node     { return &Node{Kind: Num, S: s} }
func RawText(s string) *Node    { return &Node{Kind: Raw, S: s} }
func Boolean(b bool) *Node      { return &Node{Kind: Bool, B: b} }
func Object() *Node             { return &Node{Kind: Obj} }
func Array(vals ...*Node) *Node { return &Node{Kind: Arr, Vals: vals} }
func Deep(depth int) *Node {
	n := &Node{Kind: Arr}
	cur := n
	for i := 0; i < depth; i++ {
		c := &Node{Kind: Arr}
		cur.Vals = []*Node{c}
		cur = c
	}
	return n
}
