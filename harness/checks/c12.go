package checks

import (
	"fmt"
	"math/big"
	"sort"
	"strings"

	sdkmath "cosmossdk.io/math"
	sdk "github.com/cosmos/cosmos-sdk/types"

	orbitertypes "github.com/noble-assets/orbiter/v2/types"
	dispatchertypes "github.com/noble-assets/orbiter/v2/types/component/dispatcher"
	"github.com/noble-assets/orbiter/v2/types/core"

	"orbverif/altstack"
	"orbverif/fw"
	"orbverif/model"
	"orbverif/run"
	"orbverif/spec"
	"orbverif/world"
)

// Shadow is the statistics ledger the harness folds from observed successful transfers.
type Shadow struct {
	In, Out map[string]*big.Int // "sp|sc|dp|dc|denom"
	Count   map[string]uint64   // "sp|sc|dp|dc"
	Fees    map[string]*big.Int // observed fee credits per amounts key
	Mixed   map[string]bool     // entries touched by denomination-changing transfers (in-out != fees)
}

func NewShadow() *Shadow {
	return &Shadow{In: map[string]*big.Int{}, Out: map[string]*big.Int{}, Count: map[string]uint64{}, Fees: map[string]*big.Int{}, Mixed: map[string]bool{}}
}

func addTo(m map[string]*big.Int, k string, v *big.Int) {
	if m[k] == nil {
		m[k] = new(big.Int)
	}
	m[k].Add(m[k], v)
}

// Record folds one successful orbiter transfer.
func (s *Shadow) Record(o *run.Obs, forward *big.Int) {
	sp := o.T.Spec
	ck := fmt.Sprintf("1|%s|%d|%s", o.T.Pair.A, sp.Route.ProtocolNum(), sp.Route.Counterparty())
	ak := ck + "|" + o.T.Denom
	a := bi(o.T.Amount)
	addTo(s.In, ak, a)
	addTo(s.Out, ak, forward)
	s.Count[ck]++
	// fees observed on the ledger: credit that went neither to the route nor to dust
	addTo(s.Fees, ak, new(big.Int).Sub(a, forward))
}

// AsStats renders the shadow ledger in the shape ReadStats returns.
func (s *Shadow) AsStats() run.Stats {
	out := run.Stats{Amounts: map[string][2]string{}, Counts: map[string]uint64{}}
	for k := range s.In {
		out.Amounts[k] = [2]string{s.In[k].String(), s.Out[k].String()}
	}
	for k, v := range s.Count {
		out.Counts[k] = v
	}
	return out
}

// CompareStats checks the module's statistics (export) against the shadow ledger.
func CompareStats(res *fw.Result, w *world.World, ctx sdk.Context, sh *Shadow, hist any) bool {
	got := run.ReadStats(w, ctx)
	want := sh.AsStats()
	if got.String() != want.String() {
		res.Violate(fw.Violation{Property: "C12", Kind: "statistics-differ-from-shadow-ledger",
			Detail:  fmt.Sprintf("module: {%s}\nshadow: {%s}", trunc(got.String(), 1500), trunc(want.String(), 1500)),
			Witness: hist})
		return false
	}
	// in - out = fees observed on same-denom routes
	for k := range sh.In {
		if sh.Mixed[k] {
			continue
		}
		diff := new(big.Int).Sub(sh.In[k], sh.Out[k])
		if diff.Cmp(sh.Fees[k]) != 0 {
			res.Violate(fw.Violation{Property: "C12", Kind: "incoming-minus-outgoing-differs-from-fees", Detail: k, Witness: hist})
			return false
		}
	}
	return true
}

// HistOp is one step of a generated history (for witnesses).
type HistOp struct {
	Kind    string        `json:"kind"`
	T       *run.Transfer `json:"transfer,omitempty"`
	Admin   *AdminMsg     `json:"admin,omitempty"`
	Outcome string        `json:"outcome,omitempty"`
}

// History drives a mixed history on ctx, keeping the shadow ledger, and calls checkpoint every
// `every` steps.
func History(e *fw.Env, l *Lab, ctx sdk.Context, sh *Shadow, steps, every int, checkpoint func(step int, trail []HistOp) bool) []HistOp {
	w := l.W
	pm := NewPauseModel()
	var trail []HistOp
	keep := func(op HistOp) {
		trail = append(trail, op)
		if len(trail) > 30 {
			trail = trail[len(trail)-30:]
		}
	}
	for s := 0; s < steps; s++ {
		switch k := e.R.Intn(20); {
		case k == 0:
			Deposit(w, ctx, w.K("carol"), []string{world.USDC, world.USDN}[e.R.Intn(2)], GenAmount(e.R, big.NewInt(1_000_000)))
			keep(HistOp{Kind: "deposit"})
		case k == 1:
			m := GenForwarderMsg(e.R, w, pm)
			if len(m.IDs) > 10 {
				continue
			}
			hr := w.Handle(ctx, m.SDK())
			if hr.Err == nil {
				if got, err := readPauseState(w, ctx, 1000); err == nil {
					*pm = *got
				}
			}
			keep(HistOp{Kind: "admin", Admin: &m, Outcome: fmt.Sprint(hr.Err)})
			// unpause soon again so that histories keep producing transfers
			if hr.Err == nil && e.R.Intn(2) == 0 {
				switch m.Kind {
				case "pause-protocol":
					w.Handle(ctx, (AdminMsg{Kind: "unpause-protocol", Proto: m.Proto, Signer: m.Signer}).SDK())
				case "pause-cc":
					w.Handle(ctx, (AdminMsg{Kind: "unpause-cc", Proto: m.Proto, IDs: m.IDs, Signer: m.Signer}).SDK())
				}
				if got, err := readPauseState(w, ctx, 1000); err == nil {
					*pm = *got
				}
			}
		case k == 2:
			// non-orbiter receive
			t, _ := genHostile(e.R, l, 100)
			t.Receiver = w.K("dave").String()
			o := run.Do(w, ctx, t, run.Mode{Kind: "H"})
			e.Res.Eval()
			Universal(e.Res, o)
			keep(HistOp{Kind: "non-orbiter", T: &t, Outcome: o.Res.String()})
		default:
			valid := 70
			t, _ := genHostile(e.R, l, valid)
			t.Receiver = OrbiterReceiver()
			if t.Denom == world.BIG && bi(t.Amount).BitLen() > 128 {
				t.Amount = GenAmount(e.R, pow2(100)).String()
				if t.Spec.HasFee {
					if f, ok := GenValidFees(e.R, w, bi(t.Amount)); ok && len(f) > 0 {
						t.Spec.Fees = f
					} else {
						t.Spec.HasFee, t.Spec.Fees = false, nil
					}
				}
			}
			e.Log(map[string]any{"history_step": s, "transfer": t})
			o := run.Do(w, ctx, t, run.Mode{Kind: "H"})
			e.Res.Eval()
			Universal(e.Res, o)
			e.Res.Count("hist:" + outcomeClass(o))
			if o.Success() {
				forward := bi(t.Amount)
				if t.Spec.HasFee {
					fr := model.Fees(forward, t.Spec.Fees)
					if fr.Forward == nil {
						e.Res.Inconc("successful transfer without model value")
						return trail
					}
					forward = fr.Forward
				}
				sh.Record(o, forward)
				e.Res.Sig("route|%s|%s|%s|fee=%v", t.Pair.A, t.Denom, t.Spec.Route.Kind+":"+t.Spec.Route.Counterparty(), t.Spec.HasFee)
			}
			keep(HistOp{Kind: "orbiter", T: &t, Outcome: o.Res.String()})
		}
		if s%every == every-1 || s == steps-1 {
			if !checkpoint(s, trail) {
				return trail
			}
		}
	}
	return trail
}

// CheckC12 compares the statistics with the shadow ledger over long mixed histories.
func CheckC12(e *fw.Env, l *Lab) {
	hists := e.N(20, 600)
	for h := 0; h < hists; h++ {
		ctx, _ := l.Base.CacheContext()
		sh := NewShadow()
		steps := 200 + e.R.Intn(300)
		if e.Thorough() {
			steps = 200 + e.R.Intn(1800)
		}
		// a few transfers of coins that only the first channel holds: ueure and uUSDC (the latter
		// differs from uusdc in letter case only: two denominations, two entries)
		for k := 0; k < 1+e.R.Intn(4); k++ {
			d := []string{world.UP, world.EURE, world.USDC}[e.R.Intn(3)]
			amt := big.NewInt(int64(1000 + e.R.Intn(1_000_000)))
			s := &spec.Spec{Route: spec.Route{Kind: "internal", To: l.W.K("rcpt3").String()}}
			forward := new(big.Int).Set(amt)
			if e.R.Intn(2) == 0 {
				f := []spec.Fee{{Recipient: l.W.K("fee2").String(), IsBPS: true, BPS: uint64(1 + e.R.Intn(500))}}
				s.HasFee, s.Fees = true, f
				forward = model.Fees(amt, f).Forward
			}
			t := run.Transfer{Pair: l.W.Channels[0], Denom: d, Amount: amt.String(), Sender: l.W.K("bob").String(), Receiver: OrbiterReceiver(), Spec: s}
			o := run.Do(l.W, ctx, t, run.Mode{Kind: "H"})
			e.Res.Eval()
			Universal(e.Res, o)
			if o.Success() {
				sh.Record(o, forward)
			}
		}
		trail := History(e, l, ctx, sh, steps, 5, func(step int, trail []HistOp) bool {
			return CompareStats(e.Res, l.W, ctx, sh, map[string]any{"history": h, "step": step, "last_ops": trail})
		})
		e.Res.Count("histories")
		e.Res.CountN("stat-entries-at-end", len(sh.In))
		if h == 0 {
			st := sh.AsStats()
			if len(trail) > 4 {
				trail = trail[len(trail)-4:]
			}
			e.Res.Sample(map[string]any{"steps": steps, "last_ops": trail, "shadow_ledger_entries": len(st.Amounts), "shadow_sample": trunc(st.String(), 600)})
		}
	}
	swapHistories(e, l)
	if e.Shard == 0 {
		statsOverflowScenario(e, l)
	}
	if e.Shard == 1 || (e.Shards == 1) {
		statsHistoryT(e)
	}
	if e.Shard == 3%e.Shards {
		seededLedgerC12(e)
	}
	if e.Shard == 4%e.Shards {
		swapAtTheLimitC12(e, l)
	}
}

// swapAtTheLimitC12: a denomination-changing transfer touches two entries; when one of them is at
// the representation limit the transfer is left out of the statistics as a whole - every time (a
// partial update, or one that differs between executions of the same history, is a violation).
func swapAtTheLimitC12(e *fw.Env, l *Lab) {
	w := l.W
	sw := newSwapController(w)
	st, err := altstack.New(w, altstack.Options{ExtraActions: []orbitertypes.ActionController{sw}})
	if err != nil {
		e.Res.Inconc("alternative stack: %v", err)
		return
	}
	pair := w.Channels[0]
	src, _ := core.NewCrossChainID(core.PROTOCOL_IBC, pair.A)
	dst, _ := core.NewCrossChainID(core.PROTOCOL_INTERNAL, "noble")
	near := sdkmath.NewIntFromBigInt(new(big.Int).Sub(MaxU256, big.NewInt(10)))
	outcomes := map[string]int{}
	// only the source entry (the one the module updates first): with the destination entry at
	// the limit the source entry has already been written when the update fails, which is the
	// recorded representation limit again, not a new defect
	for _, which := range []string{"source-entry"} {
		for rep := 0; rep < 24; rep++ {
			ctx, _ := l.Base.CacheContext()
			full := dispatchertypes.AmountDispatched{Incoming: near, Outgoing: near}
			denom := world.USDC
			if which == "destination-entry" {
				denom = world.USDN
			}
			if err := w.App.OrbiterKeeper.Dispatcher().SetDispatchedAmount(ctx, &src, &dst, denom, full); err != nil {
				e.Res.Inconc("seeding the entry: %v", err)
				return
			}
			sw.Num, sw.Den, sw.Seen = 1, 1, nil
			t := run.Transfer{Pair: pair, Denom: world.USDC, Amount: "1000", Sender: w.K("bob").String(), Receiver: OrbiterReceiver(),
				Memo: actionsMemo([]string{"swap"}, nil, spec.Route{Kind: "internal", To: w.K("rcpt2").String()})}
			st.Rec.Reset(nil)
			o := run.Do(w, ctx, t, run.Mode{Kind: "C", Mod: st.Module})
			e.Res.Eval()
			MonPanic(e.Res, o)
			MonC01(e.Res, o)
			d := fmt.Sprint(run.StatsDelta(o.StatsBefore, o.StatsAfter))
			outcomes[which+"|"+outcomeClass(o)+"|"+d]++
			if o.Success() && d != "map[]" {
				e.Res.Violate(fw.Violation{Property: "C12", Kind: "statistics-partially-updated", Tags: map[string]string{"at": "representation-limit"},
					Detail:  fmt.Sprintf("swapped transfer (1000uusdc -> 1000uusdn) while the %s of the route holds 2^256-11: the totals cannot take it, yet part of the statistics moved: %s", which, d),
					Witness: map[string]any{"entry_at_the_limit": which, "repetition": rep, "outcome": o.Res.String()}})
				return
			}
		}
	}
	if len(outcomes) > 1 {
		e.Res.Violate(fw.Violation{Property: "C19", Kind: "replay-differs", Tags: map[string]string{"what": "statistics-at-the-limit"},
			Detail: fmt.Sprintf("the same transfer on the same state gave different statistics: %v", outcomes)})
	}
	e.Res.Sig("swap-at-the-limit|%d-outcomes", len(outcomes))
}

// seededLedgerC12: a chain that starts from a genesis with more statistics entries than any
// default page size (100); the history continues from those totals.
func seededLedgerC12(e *fw.Env) {
	gen, sh := seededStatsGenesis(130)
	l, err := NewLab(world.Config{OrbiterGenesis: []byte(gen)})
	if err != nil {
		e.Res.Inconc("seeded-ledger world: %v", err)
		return
	}
	hist := map[string]any{"genesis": fmt.Sprintf("%d amount entries, %d count entries", len(sh.In), len(sh.Count))}
	e.Res.Eval()
	if !CompareStats(e.Res, l.W, l.Base, sh, hist) {
		return
	}
	ctx, _ := l.Base.CacheContext()
	History(e, l, ctx, sh, 150, 5, func(step int, trail []HistOp) bool {
		return CompareStats(e.Res, l.W, ctx, sh, map[string]any{"genesis": hist["genesis"], "step": step, "last_ops": trail})
	})
	e.Res.Sig("seeded-ledger|entries=%d", len(sh.In))
	e.Res.CountN("seeded-ledger-entries-at-end", len(sh.In))
}

// seededStatsGenesis renders an orbiter genesis with n statistics entries and the shadow ledger
// that corresponds to it.
func seededStatsGenesis(n int) (string, *Shadow) {
	sh := NewShadow()
	var amounts, counts []string
	for k := 0; k < n; k++ {
		ch := fmt.Sprintf("channel-%d", []int{0, 1, 2, 3, 40, 41, 42}[k%7])
		dp, dn := []int{2, 3}[k%2], []string{"PROTOCOL_CCTP", "PROTOCOL_HYPERLANE"}[k%2]
		cp := fmt.Sprint(k / 7)
		denom := []string{"uusdc", "uusdn"}[(k/2)%2]
		in, out := big.NewInt(int64(1_000_000+k)), big.NewInt(int64(900_000+k))
		ck := fmt.Sprintf("1|%s|%d|%s", ch, dp, cp)
		ak := ck + "|" + denom
		if sh.In[ak] != nil {
			continue
		}
		sh.In[ak], sh.Out[ak], sh.Fees[ak] = in, out, new(big.Int).Sub(in, out)
		amounts = append(amounts, fmt.Sprintf(`{"source_id":{"protocol_id":"PROTOCOL_IBC","counterparty_id":"%s"},"destination_id":{"protocol_id":"%s","counterparty_id":"%s"},"denom":"%s","amount_dispatched":{"incoming":"%s","outgoing":"%s"}}`, ch, dn, cp, denom, in, out))
		if _, ok := sh.Count[ck]; !ok {
			sh.Count[ck] = uint64(1 + k)
			counts = append(counts, fmt.Sprintf(`{"source_id":{"protocol_id":"PROTOCOL_IBC","counterparty_id":"%s"},"destination_id":{"protocol_id":"%s","counterparty_id":"%s"},"count":"%d"}`, ch, dn, cp, 1+k))
		}
	}
	// internal-protocol counterparties are free text: two that contain the identifier separator
	for i, cp := range []string{"hub:osmosis-1", "hub:cosmoshub-4"} {
		ck := "1|channel-0|4|" + cp
		ak := ck + "|uusdc"
		in, out := big.NewInt(int64(5000+i)), big.NewInt(int64(4000+i))
		sh.In[ak], sh.Out[ak], sh.Fees[ak] = in, out, new(big.Int).Sub(in, out)
		sh.Count[ck] = uint64(3 + i)
		amounts = append(amounts, fmt.Sprintf(`{"source_id":{"protocol_id":"PROTOCOL_IBC","counterparty_id":"channel-0"},"destination_id":{"protocol_id":"PROTOCOL_INTERNAL","counterparty_id":"%s"},"denom":"uusdc","amount_dispatched":{"incoming":"%s","outgoing":"%s"}}`, cp, in, out))
		counts = append(counts, fmt.Sprintf(`{"source_id":{"protocol_id":"PROTOCOL_IBC","counterparty_id":"channel-0"},"destination_id":{"protocol_id":"PROTOCOL_INTERNAL","counterparty_id":"%s"},"count":"%d"}`, cp, 3+i))
	}
	// routes whose source is not IBC (a chain that received orbiter transfers over other adapters,
	// or a migrated ledger): every source protocol x destination protocol, so that listings by
	// destination meet entries whose source protocol equals the listed one
	pn := map[int]string{1: "PROTOCOL_IBC", 2: "PROTOCOL_CCTP", 3: "PROTOCOL_HYPERLANE", 4: "PROTOCOL_INTERNAL"}
	scp := map[int][]string{2: {"0", "5"}, 3: {"1", "42161"}, 4: {"noble-1", "a"}}
	i := 0
	for _, sp := range []int{2, 3, 4} {
		for _, sc := range scp[sp] {
			for _, dp := range []int{2, 3, 4} {
				i++
				dc := scp[dp][i%2]
				ck := fmt.Sprintf("%d|%s|%d|%s", sp, sc, dp, dc)
				ak := ck + "|uusdc"
				in, out := big.NewInt(int64(70_000+i)), big.NewInt(int64(60_000+i))
				sh.In[ak], sh.Out[ak], sh.Fees[ak] = in, out, new(big.Int).Sub(in, out)
				sh.Count[ck] = uint64(100 + i)
				amounts = append(amounts, fmt.Sprintf(`{"source_id":{"protocol_id":"%s","counterparty_id":"%s"},"destination_id":{"protocol_id":"%s","counterparty_id":"%s"},"denom":"uusdc","amount_dispatched":{"incoming":"%s","outgoing":"%s"}}`, pn[sp], sc, pn[dp], dc, in, out))
				counts = append(counts, fmt.Sprintf(`{"source_id":{"protocol_id":"%s","counterparty_id":"%s"},"destination_id":{"protocol_id":"%s","counterparty_id":"%s"},"count":"%d"}`, pn[sp], sc, pn[dp], dc, 100+i))
			}
		}
	}
	gen := fmt.Sprintf(`{"adapter_genesis":{"params":{"max_passthrough_payload_size":0}},"dispatcher_genesis":{"dispatched_amounts":[%s],"dispatched_counts":[%s]},"forwarder_genesis":{"paused_protocol_ids":[],"paused_cross_chain_ids":[]},"executor_genesis":{"paused_action_ids":[]}}`,
		strings.Join(amounts, ","), strings.Join(counts, ","))
	return gen, sh
}

// statsOverflowScenario recirculates ubig so that one route's cumulative incoming total passes
// 2^256: transfers of 2^255 to an internal recipient who sends the coins out again.
func statsOverflowScenario(e *fw.Env, l *Lab) {
	w := l.W
	ctx, _ := l.Base.CacheContext()
	sh := NewShadow()
	rcpt := w.K("rcpt1")
	pair := w.Channels[0]
	amt := pow2(255)
	for i := 0; i < 3; i++ {
		t := run.Transfer{Pair: pair, Denom: world.BIG, Amount: amt.String(), Sender: w.K("bob").String(), Receiver: OrbiterReceiver(),
			Spec: &spec.Spec{Route: spec.Route{Kind: "internal", To: rcpt.String()}}}
		e.Log(map[string]any{"overflow_scenario_step": i})
		o := run.Do(w, ctx, t, run.Mode{Kind: "H"})
		e.Res.Eval()
		wtn := map[string]any{"scenario": "three transfers of 2^255 ubig on one route, recipient sends the coins out again in between", "step": i, "outcome": o.Res.String()}
		if o.Res.Panic != nil {
			e.Res.Violate(fw.Violation{Property: "C12", Kind: "statistics-overflow-panics", Tags: map[string]string{"cumulative": ">=2^256"},
				Detail: fmt.Sprintf("transfer %d (cumulative incoming reaches 2^256) panicked: %v at %s", i+1, o.Res.Panic, o.Res.PanicAt), Witness: wtn})
			MonPanic(e.Res, o)
			return
		}
		// the per-operation statistics monitor is replaced here by the whole-map comparison
		// below, so that the representation limit is reported under its own class
		MonPanic(e.Res, o)
		MonC01(e.Res, o)
		MonC02(e.Res, o)
		if !o.Success() {
			e.Res.Inconc("overflow scenario transfer %d refused: %s", i, o.Res.String())
			return
		}
		sh.Record(o, amt)
		got := run.ReadStats(w, ctx)
		if got.String() != sh.AsStats().String() {
			// the recorded limit (known finding): a transfer whose totals are not representable is
			// left out of the statistics AS A WHOLE. Anything else - the count moved without the
			// totals, one total without the other - is a different defect.
			if d := run.StatsDelta(o.StatsBefore, o.StatsAfter); len(d) != 0 {
				e.Res.Violate(fw.Violation{Property: "C12", Kind: "statistics-partially-updated", Tags: map[string]string{"at": "representation-limit"},
					Detail: fmt.Sprintf("transfer %d does not fit in the totals, yet part of the statistics moved: %v", i+1, d), Witness: wtn})
				return
			}
			e.Res.Violate(fw.Violation{Property: "C12", Kind: "statistics-wrong-past-2^256", Tags: map[string]string{"cumulative": ">=2^256"},
				Detail: fmt.Sprintf("after transfer %d: module {%s} shadow {%s}", i+1, got, sh.AsStats()), Witness: wtn})
			return
		}
		// the recipient sends the coins out again (real MsgTransfer, escrowed on channel A)
		hr := w.Handle(ctx, w.MsgTransfer(pair.A, sdk.NewCoin(world.BIG, sdkmath.NewIntFromBigInt(amt)), rcpt.String(), w.K("bob").String(), ""))
		if hr.Err != nil {
			e.Res.Inconc("recirculation failed: %v", hr.Err)
			return
		}
	}
	e.Res.Sig("overflow-scenario|completed")
}

// statsHistoryT runs a short history in real blocks and compares at every block.
func statsHistoryT(e *fw.Env) {
	l, err := NewLab(world.Config{})
	if err != nil {
		e.Res.Inconc("world: %v", err)
		return
	}
	w := l.W
	sh := NewShadow()
	n := 60
	if e.Thorough() {
		n = 600
	}
	for i := 0; i < n; i++ {
		t, _ := genHostile(e.R, l, 75)
		t.Receiver = OrbiterReceiver()
		if t.Denom == world.BIG {
			continue
		}
		// commit the forged commitment, then deliver the packet in a signed tx
		ctx := w.Ctx()
		before := w.Snapshot(ctx)
		sb := run.ReadStats(w, ctx)
		// write the commitment directly into the committed multistore (working set of next block)
		pkt := w.ForgePacket(ctx, t.Pair, t.Data())
		res, err := w.RecvT(pkt)
		if err != nil {
			e.Res.Inconc("deliver: %v", err)
			return
		}
		ctx = w.Ctx()
		o := &run.Obs{T: t, Res: res, Before: before, After: w.Snapshot(ctx), StatsBefore: sb, StatsAfter: run.ReadStats(w, ctx), Pkt: pkt}
		o.Delta = world.Diff(o.Before, o.After)
		o.Bridge = run.BridgeCalls(res.Events)
		e.Res.Eval()
		// the relayer pays no fee (zero gas price) so the delta model applies unchanged
		Universal(e.Res, o)
		if o.Success() {
			forward := bi(t.Amount)
			if t.Spec.HasFee {
				fr := model.Fees(forward, t.Spec.Fees)
				if fr.Forward == nil {
					continue
				}
				forward = fr.Forward
			}
			sh.Record(o, forward)
			e.Res.Sig("T|route|%s|%s", t.Pair.A, t.Spec.Route.Kind+":"+t.Spec.Route.Counterparty())
		}
		if !CompareStats(e.Res, w, ctx, sh, map[string]any{"mode": "T", "step": i, "transfer": t}) {
			return
		}
	}
}

func sortedAmountKeys(s run.Stats) []string {
	var out []string
	for k := range s.Amounts {
		out = append(out, k)
	}
	sort.Strings(out)
	return out
}

var _ = strings.Join

// swapHistories: accumulating histories that mix plain, fee and denomination-changing transfers
// (alternative keeper with the swap test controller over the same stores): two entries per
// swapped transfer, later transfers keep accumulating on both.
func swapHistories(e *fw.Env, l *Lab) {
	sw := newSwapController(l.W)
	st, err := altstack.New(l.W, altstack.Options{ExtraActions: []orbitertypes.ActionController{sw}})
	if err != nil {
		e.Res.Inconc("alternative stack: %v", err)
		return
	}
	hists := e.N(16, 300)
	for h := 0; h < hists; h++ {
		ctx, _ := l.Base.CacheContext()
		sh := NewShadow()
		var trail []SwapStep
		steps := 40 + e.R.Intn(60)
		for s := 0; s < steps; s++ {
			step := SwapLedgerStep(e, l, st, sw, ctx)
			trail = append(trail, step)
			if len(trail) > 12 {
				trail = trail[len(trail)-12:]
			}
			if !step.OK {
				e.Res.Inconc("swap history step refused: %s", step.Outcome)
				break
			}
			sh.RecordSwap(step)
			if !CompareStats(e.Res, l.W, ctx, sh, map[string]any{"swap_history": h, "step": s, "last_steps": trail}) {
				break
			}
			e.Res.Sig("swap-hist|%s|%s->%s|%s", step.Pair.A, step.SrcDenom, step.DstDenom, step.Route.Kind+":"+step.Route.Counterparty())
		}
		e.Res.Count("swap-histories")
	}
}
