package checks

import (
	"encoding/hex"
	"fmt"
	"math/big"
	"strings"

	sdkmath "cosmossdk.io/math"
	sdk "github.com/cosmos/cosmos-sdk/types"
	clienttypes "github.com/cosmos/ibc-go/v8/modules/core/02-client/types"
	channeltypes "github.com/cosmos/ibc-go/v8/modules/core/04-channel/types"
	porttypes "github.com/cosmos/ibc-go/v8/modules/core/05-port/types"
	ibcexported "github.com/cosmos/ibc-go/v8/modules/core/exported"

	"github.com/noble-assets/orbiter/v2/entrypoint"

	"orbverif/fw"
	"orbverif/run"
	"orbverif/spec"
	"orbverif/world"
)

// nonOrbiterReceivers are receivers that do not decode to the orbiter account (near misses incl.).
func nonOrbiterReceivers(w *world.World) []string {
	orb := world.OrbiterAddr().String()
	return []string{
		w.K("carol").String(), w.K("dave").String(), strings.ToUpper(w.K("carol").String()),
		world.DustAddr().String(), orb[:len(orb)-1], orb + "x", " " + orb, orb + " ", otherHRP(world.OrbiterAddr(), "cosmos"),
		strings.ToUpper(orb[:7]) + orb[7:], "", "orbiter", "noble1", strings.Repeat("a", 2100), ModAddr("transfer"), ModAddr("bonded_tokens_pool"),
		otherHRP(world.OrbiterAddr()[:19], "noble"), w.K("rcpt1").String(),
	}
}

func hostileMemos(l *Lab, r interface{ Intn(int) int }) []string {
	tpls := l.Templates()
	m := []string{"", "{}", "not json", `{"forward":{"receiver":"x","port":"transfer","channel":"channel-0"}}`, `{"wasm":{}}`,
		tpls[0].Spec.Memo(), tpls[1].Spec.Memo(), tpls[2].Spec.Memo(),
		`{"orbiter":null}`, `{"orbiter":{}}`, `{"orbiter":` + strings.Repeat("[", 2000) + strings.Repeat("]", 2000) + `}`,
		strings.Repeat("m", 32000), strings.Repeat("m", 32768), strings.Repeat("m", 32769), strings.Repeat("m", 70000), `{"orbiter":{"pre_actions":[null]}}`, "\x00\x01", `{"orbiter":{"forwarding":{"protocol_id":99}}}`}
	return m
}

// c07Stream generates a history that contains NO packet addressed to the orbiter account.
func c07Stream(e *fw.Env, blocks int) (*Stream, *Lab, *Trace, error) {
	l, err := NewLab(world.Config{})
	if err != nil {
		return nil, nil, nil, err
	}
	w := l.W
	st := &Stream{Channels: 2}
	rec := &Trace{}
	rel := w.K("relayer")
	recvs := nonOrbiterReceivers(w)
	memos := hostileMemos(l, e.R)
	seq := uint64(1 << 44)
	pm := NewPauseModel()
	type pending struct {
		pkt     channeltypes.Packet
		timeout bool
	}
	var sent []pending   // packets sent from Noble ends, waiting to be received / timed out
	var toAck []struct { // packets received on the peer end, waiting for MsgAcknowledgement
		pkt channeltypes.Packet
		ack []byte
	}
	for b := 0; b < blocks; b++ {
		var blk StreamBlock
		relSeq := uint64(0)
		addRel := func(m sdk.Msg) error {
			bz, err := w.SignTx([]sdk.Msg{m}, relSeq, rel)
			if err != nil {
				return err
			}
			relSeq++
			blk.Txs = append(blk.Txs, bz)
			return nil
		}
		// 1. forged incoming packets to non-orbiter receivers
		for k := 0; k < 1+e.R.Intn(2); k++ {
			pair := w.Channels[e.R.Intn(len(w.Channels))]
			var data []byte
			switch e.R.Intn(8) {
			case 0:
				data = make([]byte, e.R.Intn(200))
				e.R.Read(data)
			case 1:
				dm := DataMutations(l, pair, memos[5])
				d := dm[e.R.Intn(len(dm))]
				// keep only mutations that do not leave the receiver the orbiter account
				t := run.Transfer{RawData: d.Data}
				if IsOrbiterReceiver(t.EffectiveReceiver()) || len(d.Data) > 8000 {
					data = []byte("{}")
				} else {
					data = d.Data
				}
			default:
				denoms := []string{world.Port + "/" + pair.B + "/" + world.USDC, world.Port + "/" + pair.B + "/" + world.USDN, "uforeign", world.Port + "/" + pair.B + "/uforeign",
					"transfer/channel-77/uusdc", world.Port + "/" + pair.B + "/transfer/channel-9/uatom", ""}
				amounts := []string{"1000", "1", "0", "-1", "999999999999999999999999999999", "abc", "1000000"}
				data = world.ICS20(denoms[e.R.Intn(len(denoms))], amounts[e.R.Intn(len(amounts))], w.K("bob").String(), recvs[e.R.Intn(len(recvs))], memos[e.R.Intn(len(memos))])
			}
			seq++
			blk.Forges = append(blk.Forges, Forge{A: pair.A, B: pair.B, Seq: seq, Data: data})
			pkt := w.ForgePacketSeq(w.Ctx(), pair, data, seq)
			if err := addRel(w.MsgRecv(pkt, rel)); err != nil {
				return nil, nil, nil, err
			}
		}
		// 2. relay one of the packets sent earlier from a Noble end: receive on the peer end or time out
		if len(sent) > 0 {
			p := sent[0]
			sent = sent[1:]
			if p.timeout {
				m := channeltypes.NewMsgTimeout(p.pkt, 1, world.SentinelProof, clienttypes.NewHeight(1, uint64(w.Height+1)), rel.String())
				if err := addRel(m); err != nil {
					return nil, nil, nil, err
				}
			} else if err := addRel(w.MsgRecv(p.pkt, rel)); err != nil {
				return nil, nil, nil, err
			}
		}
		if len(toAck) > 0 {
			a := toAck[0]
			toAck = toAck[1:]
			m := channeltypes.NewMsgAcknowledgement(a.pkt, a.ack, world.SentinelProof, clienttypes.NewHeight(1, uint64(w.Height+1)), rel.String())
			if err := addRel(m); err != nil {
				return nil, nil, nil, err
			}
		}
		// 3. an outgoing transfer from a user (send path), sometimes with a short timeout, with hostile memos
		if e.R.Intn(2) == 0 {
			from := []*world.Key{w.K("alice"), w.K("carol")}[e.R.Intn(2)]
			pair := w.Channels[e.R.Intn(len(w.Channels))]
			mt := w.MsgTransfer(pair.A, sdk.NewCoin([]string{world.USDC, world.USDN, world.EURE}[e.R.Intn(3)], sdkmath.NewInt(int64(1+e.R.Intn(100000)))),
				from.String(), recvs[e.R.Intn(4)], memos[e.R.Intn(9)])
			if e.R.Intn(3) == 0 {
				mt.TimeoutHeight = clienttypes.NewHeight(1, uint64(w.Height+2))
			}
			bz, err := w.SignTx([]sdk.Msg{mt}, 0, from)
			if err != nil {
				return nil, nil, nil, err
			}
			blk.Txs = append(blk.Txs, bz)
		}
		// 4. orbiter admin messages (the module exists on both chains)
		if e.R.Intn(4) == 0 {
			var m AdminMsg
			if e.R.Intn(2) == 0 {
				m = GenForwarderMsg(e.R, w, pm)
			} else {
				m = GenExecutorMsg(e.R, w, pm)
			}
			if len(m.IDs) > 5 {
				m.IDs = m.IDs[:5]
			}
			if m.Signer == w.Authority.String() {
				bz, err := w.SignTx([]sdk.Msg{m.SDK()}, 0, w.Authority)
				if err != nil {
					return nil, nil, nil, err
				}
				blk.Txs = append(blk.Txs, bz)
			}
		}
		res, err := w.Block(blk.Txs)
		if err != nil {
			return nil, nil, nil, err
		}
		bt := BlockTrace{AppHash: hex.EncodeToString(res.AppHash)}
		for _, r := range res.TxResults {
			ack, _ := world.AckFromEvents(r.Events)
			bt.Txs = append(bt.Txs, TxTrace{Code: r.Code, Codespace: r.Codespace, Data: hex.EncodeToString(r.Data),
				GasUsed: r.GasUsed, EventsB: []byte(renderEvents(r.Events)), AckB: ack, LogB: []byte(r.Log)})
			if r.Code != 0 {
				continue
			}
			// harvest packets sent in this block and acknowledgements written for loop-back packets
			if pkt, err := world.PacketFromEvents(r.Events); err == nil && pkt.Sequence < 1<<40 {
				isSendTx := false
				for _, ev := range r.Events {
					if ev.Type == "ibc_transfer" {
						isSendTx = true
					}
				}
				if isSendTx {
					sent = append(sent, pending{pkt: pkt, timeout: pkt.TimeoutHeight.RevisionHeight < 1000000})
				}
			}
			if ack != nil {
				for _, ev := range r.Events {
					if ev.Type == channeltypes.EventTypeRecvPacket {
						if pkt, ok := packetFromRecvEvent(ev.Attributes); ok && pkt.Sequence < 1<<40 {
							toAck = append(toAck, struct {
								pkt channeltypes.Packet
								ack []byte
							}{pkt, ack})
						}
					}
				}
			}
		}
		rec.Blocks = append(rec.Blocks, bt)
		st.Blocks = append(st.Blocks, blk)
		if got, err := readPauseState(w, w.Ctx(), 1000); err == nil {
			*pm = *got
		}
	}
	return st, l, rec, nil
}

func packetFromRecvEvent(attrs []abciAttr) (channeltypes.Packet, bool) {
	m := map[string]string{}
	for _, a := range attrs {
		m[a.Key] = a.Value
	}
	var seq uint64
	fmt.Sscanf(m[channeltypes.AttributeKeySequence], "%d", &seq)
	data, err := hex.DecodeString(m[channeltypes.AttributeKeyDataHex])
	if err != nil {
		return channeltypes.Packet{}, false
	}
	th, err := clienttypes.ParseHeight(m[channeltypes.AttributeKeyTimeoutHeight])
	if err != nil {
		return channeltypes.Packet{}, false
	}
	var ts uint64
	fmt.Sscanf(m[channeltypes.AttributeKeyTimeoutTimestamp], "%d", &ts)
	return channeltypes.NewPacket(data, seq, m[channeltypes.AttributeKeySrcPort], m[channeltypes.AttributeKeySrcChannel],
		m[channeltypes.AttributeKeyDstPort], m[channeltypes.AttributeKeyDstChannel], th, ts), true
}

// CheckC07 compares the chain with and without the orbiter middleware.
func CheckC07(e *fw.Env, l *Lab) {
	// 1. twin chains in mode T
	blocks := 60
	if e.Thorough() {
		blocks = 500
	}
	st, _, rec, err := c07Stream(e, blocks)
	if err != nil {
		e.Res.Inconc("stream: %v", err)
		return
	}
	twin, err := NewLab(world.Config{NoOrbiter: true})
	if err != nil {
		e.Res.Inconc("twin world: %v", err)
		return
	}
	tr, err := replayOn(twin, st, 0)
	if err != nil {
		e.Res.Inconc("twin replay: %v", err)
		return
	}
	e.Res.Eval()
	ntx, nack, nfail, nsend, ntimeout, nackmsg := 0, 0, 0, 0, 0, 0
	for _, b := range rec.Blocks {
		for _, t := range b.Txs {
			ntx++
			if t.Ack() != "" {
				nack++
			}
			if t.Code != 0 {
				nfail++
			}
			ev := t.Events()
			if strings.Contains(ev, "ibc_transfer{") {
				nsend++
			}
			if strings.Contains(ev, "timeout_packet{") {
				ntimeout++
			}
			if strings.Contains(ev, "acknowledge_packet{") {
				nackmsg++
			}
		}
	}
	e.Res.CountN("twin:txs", ntx)
	e.Res.CountN("twin:received-packets-with-ack", nack)
	e.Res.CountN("twin:failed-txs", nfail)
	e.Res.CountN("twin:outgoing-transfers", nsend)
	e.Res.CountN("twin:timeouts", ntimeout)
	e.Res.CountN("twin:acknowledgements-relayed", nackmsg)
	// compare block by block (the recording world is the chain WITH the middleware)
	tr.Genesis, tr.Bank, tr.Queries = "", "", ""
	rec2 := *rec
	if kind, detail := CompareTraces(&rec2, tr, false); kind != "" {
		e.Res.Violate(fw.Violation{Property: "C07", Kind: "twin-chains-diverge", Tags: map[string]string{"what": kind},
			Detail: "chain with the orbiter middleware vs chain without it, on traffic not addressed to the orbiter: " + kind + ": " + detail})
	} else {
		e.Res.Sig("twin|identical|blocks=%d", blocks)
		for _, b := range rec.Blocks {
			for _, t := range b.Txs {
				if t.Ack() != "" {
					e.Res.Sig("twin|ack-class|%s", errClass(t.Ack()))
				}
			}
		}
	}
	if e.Shard == 0 {
		e.Res.Sample(map[string]any{"twin_stream_blocks": blocks, "txs": ntx, "packets_received": nack, "outgoing_transfers": nsend, "timeouts": ntimeout,
			"acks_relayed": nackmsg, "last_app_hash_both_chains": rec.Blocks[len(rec.Blocks)-1].AppHash})
	}

	// 2. per packet on two branches of one state (mode C): arbitrary bytes, envelopes, orbiter states
	w := l.W
	orbStack, bare := w.OrbiterStack(), w.BareTransfer()
	recvs := nonOrbiterReceivers(w)
	memos := hostileMemos(l, e.R)
	n := e.N(5000, 200000)
	// valid identifiers only (the statement quantifies over valid ones; IBC core never hands an
	// application anything else): the destination channel is Noble's own id, which ibc-go always
	// generates as channel-N; the source channel and port are the counterparty's and may be any
	// ICS-24 identifier.
	dstChans := []string{"channel-0", "channel-1", "channel-2", "channel-3", "channel-99", "channel-18446744073709551615"}
	srcChans := append([]string{"mychannel12", "CHANNEL-00", "chan.nel_+-#[]<>", strings.Repeat("c", 64), "07-tendermint-0"}, dstChans...)
	ports := []string{"transfer", "transfer", "transfer", "icahost", "tr", "wasm.noble1abc", strings.Repeat("p", 128)}
	for i := 0; i < n; i++ {
		base, _ := l.Base.CacheContext()
		// orbiter pause / parameter state
		if e.R.Intn(3) == 0 {
			switch e.R.Intn(4) {
			case 0:
				PauseProtocol(w, base, ProtoName[int32(1+e.R.Intn(4))])
			case 1:
				PauseAction(w, base, "ACTION_FEE")
			case 2:
				UpdateParams(w, base, uint32(e.R.Intn(100)))
			default:
				PauseCrossChains(w, base, "PROTOCOL_CCTP", []string{"0"})
			}
		}
		if e.R.Intn(4) == 0 {
			Deposit(w, base, w.K("carol"), world.USDC, big.NewInt(int64(1+e.R.Intn(1000))))
		}
		pair := w.Channels[e.R.Intn(len(w.Channels))]
		var data []byte
		dataCls := ""
		switch e.R.Intn(6) {
		case 0:
			data = make([]byte, e.R.Intn(300))
			e.R.Read(data)
			dataCls = "random-bytes"
		case 1:
			valid := world.ICS20(world.Port+"/"+pair.B+"/"+world.USDC, "1000", w.K("bob").String(), recvs[0], memos[5])
			data = append([]byte(nil), valid...)
			data[e.R.Intn(len(data))] ^= byte(1 << uint(e.R.Intn(8)))
			dataCls = "bit-flip"
		default:
			ri, mi := e.R.Intn(len(recvs)), e.R.Intn(len(memos))
			dataCls = fmt.Sprintf("recv%d|memo%d", ri, mi)
			denoms := []string{world.Port + "/" + pair.B + "/" + world.USDC, world.Port + "/" + pair.B + "/" + world.USDN, "uforeign", "", "transfer/channel-9/uusdc"}
			amounts := []string{"1000", "1", "0", "-1", "abc", "99999999999999999999999999"}
			data = world.ICS20(denoms[e.R.Intn(len(denoms))], amounts[e.R.Intn(len(amounts))], w.K("bob").String(), recvs[ri], memos[mi])
		}
		t := run.Transfer{RawData: data}
		if IsOrbiterReceiver(t.EffectiveReceiver()) {
			continue // a bit flip may have produced an orbiter packet
		}
		sp, sc, dp, dc := world.Port, pair.B, world.Port, pair.A
		if e.R.Intn(3) == 0 {
			sp, sc, dc = ports[e.R.Intn(len(ports))], srcChans[e.R.Intn(len(srcChans))], dstChans[e.R.Intn(len(dstChans))]
		}
		pkt := channeltypes.NewPacket(data, uint64(1+e.R.Intn(1000)), sp, sc, dp, dc, w.FarTimeout(), 0)
		e.Log(map[string]any{"packet_data": data, "envelope": []string{sp, sc, dp, dc}})
		c1, _ := base.CacheContext()
		c2, _ := base.CacheContext()
		r1 := w.RecvC(c1, orbStack, pkt)
		r2 := w.RecvC(c2, bare, pkt)
		e.Res.Eval()
		wtn := map[string]any{"packet_data": string(data), "envelope": []string{sp, sc, dp, dc}, "with_middleware": r1.String(), "without": r2.String()}
		if r1.Panic != nil {
			e.Res.Violate(fw.Violation{Property: "C14", Kind: "panic", Tags: map[string]string{"site": "C07-workload"}, Detail: fmt.Sprint(r1.Panic), Witness: wtn})
			if r2.Panic == nil {
				e.Res.Violate(fw.Violation{Property: "C07", Kind: "middleware-changes-outcome", Detail: "panic only with the middleware", Witness: wtn})
			}
			continue
		}
		if r2.Panic != nil {
			continue // the wrapped application itself panics on this input: not the middleware's doing
		}
		switch {
		case string(r1.Ack) != string(r2.Ack):
			e.Res.Violate(fw.Violation{Property: "C07", Kind: "middleware-changes-acknowledgement", Tags: map[string]string{"envelope": envClass(sp, sc, dc)},
				Detail: fmt.Sprintf("with middleware %q, without %q", trunc(string(r1.Ack), 300), trunc(string(r2.Ack), 300)), Witness: wtn})
		case renderEvents(r1.Events) != renderEvents(r2.Events):
			e.Res.Violate(fw.Violation{Property: "C07", Kind: "middleware-changes-events", Detail: firstDiffLine(renderEvents(r1.Events), renderEvents(r2.Events)), Witness: wtn})
		default:
			if diff := world.DigestDiff(w.StoreDigest(c1), w.StoreDigest(c2)); len(diff) != 0 {
				e.Res.Violate(fw.Violation{Property: "C07", Kind: "middleware-changes-state", Detail: fmt.Sprintf("stores differing: %v", diff), Witness: wtn})
			}
		}
		e.Res.Sig("modeC|%s|%s|%s", envClass(sp, sc, dc), ackClass(r2), dataCls)
	}
	// 3. another wrapped application: one that acknowledges asynchronously (returns nil and writes
	// the acknowledgement later, as packet-forward-middleware does), successfully, or with an
	// error, and that writes state and emits events whatever it answers. The middleware must hand
	// through exactly what it returns.
	stub := stubApp{IBCModule: bare, w: w}
	orbStub := entrypoint.NewIBCMiddleware(stub, w.App.IBCKeeper.ChannelKeeper, w.App.OrbiterKeeper.Adapter())
	for i := 0; i < e.N(600, 20000); i++ {
		pair := w.Channels[e.R.Intn(len(w.Channels))]
		ri, mi := e.R.Intn(len(recvs)), e.R.Intn(len(memos))
		data := world.ICS20(world.Port+"/"+pair.B+"/"+world.USDC, "1000", w.K("bob").String(), recvs[ri], memos[mi])
		if e.R.Intn(8) == 0 {
			data = make([]byte, e.R.Intn(200))
			e.R.Read(data)
		}
		if IsOrbiterReceiver((run.Transfer{RawData: data}).EffectiveReceiver()) {
			continue
		}
		pkt := channeltypes.NewPacket(data, uint64(1+e.R.Intn(3000)), world.Port, pair.B, world.Port, pair.A, w.FarTimeout(), 0)
		e.Log(map[string]any{"stub_packet_data": data, "seq": pkt.Sequence})
		c1, _ := l.Base.CacheContext()
		c2, _ := l.Base.CacheContext()
		r1 := w.RecvC(c1, orbStub, pkt)
		r2 := w.RecvC(c2, stub, pkt)
		e.Res.Eval()
		wtn := map[string]any{"packet_data": trunc(string(data), 600), "wrapped_application_answers": []string{"nil (asynchronous)", "success", "error", "panic"}[pkt.Sequence%4],
			"with_middleware": r1.String(), "without": r2.String()}
		switch {
		case r1.Panic != nil && r2.Panic != nil:
			// the application aborts the delivery, with and without the middleware
		case r2.Panic != nil:
			e.Res.Violate(fw.Violation{Property: "C07", Kind: "middleware-changes-outcome", Tags: map[string]string{"wrapped": "stub"},
				Detail: fmt.Sprintf("the wrapped application aborts the delivery (%v); through the middleware the packet is acknowledged: %s", r2.Panic, r1.String()), Witness: wtn})
		case r1.Panic != nil:
			e.Res.Violate(fw.Violation{Property: "C07", Kind: "middleware-changes-outcome", Tags: map[string]string{"wrapped": "stub"}, Detail: fmt.Sprintf("panic only with the middleware: %v", r1.Panic), Witness: wtn})
		case string(r1.Ack) != string(r2.Ack) || (r1.Ack == nil) != (r2.Ack == nil):
			e.Res.Violate(fw.Violation{Property: "C07", Kind: "middleware-changes-acknowledgement", Tags: map[string]string{"wrapped": "stub"},
				Detail: fmt.Sprintf("with middleware %q, without %q", trunc(string(r1.Ack), 300), trunc(string(r2.Ack), 300)), Witness: wtn})
		case renderEvents(r1.Events) != renderEvents(r2.Events):
			e.Res.Violate(fw.Violation{Property: "C07", Kind: "middleware-changes-events", Tags: map[string]string{"wrapped": "stub"}, Detail: firstDiffLine(renderEvents(r1.Events), renderEvents(r2.Events)), Witness: wtn})
		default:
			if diff := world.DigestDiff(w.StoreDigest(c1), w.StoreDigest(c2)); len(diff) != 0 {
				e.Res.Violate(fw.Violation{Property: "C07", Kind: "middleware-changes-state", Tags: map[string]string{"wrapped": "stub"}, Detail: fmt.Sprintf("stores differing: %v", diff), Witness: wtn})
			}
		}
		e.Res.Sig("stub|answer=%d|recv%d|memo%d|%s", pkt.Sequence%4, ri, mi, ackClass(r2))
	}
	// 4. every other callback: handshake, close, acknowledgement, timeout, send, write-ack
	checkC07Callbacks(e, l)
	_ = spec.Spec{}
}

// stubApp is a wrapped application other than ICS-20: it records the packet in the bank module's
// store (a send of 1 uusdc between two fixed accounts), emits an event, and answers nil
// (asynchronous acknowledgement), success or error depending on the packet sequence.
type stubApp struct {
	porttypes.IBCModule
	w *world.World
}

func (s stubApp) OnRecvPacket(ctx sdk.Context, p channeltypes.Packet, _ sdk.AccAddress) ibcexported.Acknowledgement {
	_ = s.w.App.BankKeeper.SendCoins(ctx, s.w.K("carol").Addr, s.w.K("dave").Addr, sdk.NewCoins(sdk.NewInt64Coin(world.USDC, 1)))
	ctx.EventManager().EmitEvent(sdk.NewEvent("stub_recv", sdk.NewAttribute("sequence", fmt.Sprint(p.Sequence)), sdk.NewAttribute("len", fmt.Sprint(len(p.Data)))))
	switch p.Sequence % 4 {
	case 0:
		return nil
	case 1:
		return channeltypes.NewResultAcknowledgement([]byte{1})
	case 3:
		// an application that cannot complete the delivery aborts it (ICS-20 does when its
		// escrow accounting underflows): the packet stays pending, nothing is acknowledged
		panic(fmt.Sprintf("stub cannot complete packet %d", p.Sequence))
	}
	return channeltypes.NewErrorAcknowledgement(fmt.Errorf("stub refuses packet %d", p.Sequence))
}

func envClass(sp, sc, dc string) string {
	c := "std"
	if sp != world.Port {
		c = "odd-port"
	}
	if !strings.HasPrefix(sc, "channel-") {
		c += "+non-ibc-go-source-channel"
	}
	if dc != "channel-0" && dc != "channel-2" {
		c += "+other-dest-channel"
	}
	return c
}

func ackClass(r world.RecvResult) string {
	switch {
	case r.Ack == nil:
		return "nil"
	case r.AckOK:
		return "success"
	}
	return "error:" + errClass(r.AckErr)
}
