package checks

import (
	"math/big"
	"math/rand"
	"strings"

	"orbverif/model"
	"orbverif/spec"
	"orbverif/world"
)

func pow2(n uint) *big.Int { return new(big.Int).Lsh(big.NewInt(1), n) }

// AmountEdges are the boundary amounts of DESIGN.md section 4.
func AmountEdges() []*big.Int {
	out := []*big.Int{
		big.NewInt(1), big.NewInt(2), big.NewInt(3), big.NewInt(9999), big.NewInt(10000), big.NewInt(10001),
		big.NewInt(19999), big.NewInt(20000), big.NewInt(123456789),
		new(big.Int).Sub(pow2(63), big.NewInt(1)), pow2(63), new(big.Int).Add(pow2(63), big.NewInt(1)),
		pow2(64), pow2(128), pow2(255), new(big.Int).Sub(pow2(255), big.NewInt(1)),
		new(big.Int).Sub(pow2(256), big.NewInt(1)),
		new(big.Int).Div(MaxU256, big.NewInt(10000)), new(big.Int).Add(new(big.Int).Div(MaxU256, big.NewInt(10000)), big.NewInt(1)),
	}
	return out
}

// GenAmount draws a boundary-biased amount in [1, max].
func GenAmount(r *rand.Rand, max *big.Int) *big.Int {
	var v *big.Int
	switch r.Intn(4) {
	case 0:
		e := AmountEdges()
		v = new(big.Int).Set(e[r.Intn(len(e))])
	case 1:
		v = big.NewInt(int64(1 + r.Intn(30000)))
	default:
		bits := 1 + r.Intn(max.BitLen())
		v = new(big.Int).Rand(r, pow2(uint(bits)))
		if r.Intn(3) == 0 {
			// near a multiple of 10000
			v.Sub(v, new(big.Int).Mod(v, big.NewInt(10000)))
			v.Add(v, big.NewInt(int64(r.Intn(3)-1)))
		}
	}
	if v.Sign() <= 0 {
		v = big.NewInt(1)
	}
	if v.Cmp(max) > 0 {
		v = new(big.Int).Set(max)
		if r.Intn(2) == 0 {
			v.Sub(v, big.NewInt(int64(r.Intn(10001))))
			if v.Sign() <= 0 {
				v = big.NewInt(1)
			}
		}
	}
	return v
}

var bpsEdges = []uint64{1, 2, 9, 10, 99, 100, 101, 2500, 4999, 5000, 5001, 9999, 10000}
var bpsBad = []uint64{0, 10001, 65535, 65536, 4294967295}

// FeeRecipients are the harness accounts used as fee recipients.
func FeeRecipients(w *world.World) []string {
	var out []string
	for _, n := range []string{"fee1", "fee2", "fee3", "fee4", "fee5", "fee6"} {
		out = append(out, w.K(n).String())
	}
	return out
}

// GenValidFees draws a list of 0..5 valid entries whose total (by the model) stays below a, if
// possible. It returns nil,false when it could not find one in a few tries.
func GenValidFees(r *rand.Rand, w *world.World, a *big.Int) ([]spec.Fee, bool) {
	rc := FeeRecipients(w)
	for try := 0; try < 20; try++ {
		n := r.Intn(6)
		var fees []spec.Fee
		for i := 0; i < n; i++ {
			f := spec.Fee{Recipient: rc[r.Intn(len(rc))]}
			if r.Intn(2) == 0 {
				f.IsBPS = true
				if r.Intn(2) == 0 {
					f.BPS = bpsEdges[r.Intn(len(bpsEdges))]
				} else {
					f.BPS = uint64(1 + r.Intn(10000/(n+1)))
				}
			} else {
				lim := new(big.Int).Div(a, big.NewInt(int64(n+1)))
				if lim.Sign() <= 0 {
					lim = big.NewInt(1)
				}
				v := new(big.Int).Rand(r, lim)
				v.Add(v, big.NewInt(1))
				f.Amount = v.String()
			}
			fees = append(fees, f)
		}
		res := model.Fees(a, fees)
		if res.Verdict == model.MustSucceed {
			return fees, true
		}
	}
	return nil, false
}

var oddAmounts = []string{"+1", "007", "0x10", "1_0", "1e3", " 1", "1 ", "-1", "1.5", "", "0", "00", "-0",
	"115792089237316195423570985008687907853269984665640564039457584007913129639936", "٣", "1 "}

// GenAnyFees draws a fee list from the whole input space of C04: valid, boundary and invalid.
func GenAnyFees(r *rand.Rand, w *world.World, a *big.Int) []spec.Fee {
	rc := FeeRecipients(w)
	n := r.Intn(7)
	var fees []spec.Fee
	for i := 0; i < n; i++ {
		f := spec.Fee{Recipient: rc[r.Intn(len(rc))]}
		switch r.Intn(16) {
		case 4:
			f.Recipient = world.DustAddr().String()
		case 5:
			f.Recipient = world.OrbiterAddr().String()
		case 6:
			f.Recipient = ModAddr([]string{"cctp", "warp", "hyperlane", "transfer", "bonded_tokens_pool", "fee_collector", "fiat-tokenfactory", "never-used-module"}[r.Intn(8)])
		case 7:
			f.Recipient = EscrowAddr(w.Channels[0].A)
		case 0:
			f.Recipient = strings.ToUpper(f.Recipient)
		case 1:
			f.Recipient = "cosmos1qypqxpq9qcrsszg2pvxq6rs0zqg3yyc5lzv7xu"
		case 2:
			f.Recipient = ""
		case 3:
			f.Recipient = f.Recipient[:len(f.Recipient)-1]
		case 8:
			// a valid address padded with white space is not an address
			pad := []string{" ", "\t", "\n", "\u00a0"}[r.Intn(4)]
			if r.Intn(2) == 0 {
				f.Recipient = pad + f.Recipient
			} else {
				f.Recipient += pad
			}
		}
		if r.Intn(2) == 0 {
			f.IsBPS = true
			switch r.Intn(6) {
			case 0:
				f.BPS = bpsBad[r.Intn(len(bpsBad))]
			case 1, 2:
				f.BPS = bpsEdges[r.Intn(len(bpsEdges))]
			default:
				f.BPS = uint64(1 + r.Intn(10000))
			}
		} else {
			switch r.Intn(8) {
			case 0:
				f.Amount = oddAmounts[r.Intn(len(oddAmounts))]
			case 1:
				f.Amount = a.String()
			case 2:
				f.Amount = new(big.Int).Sub(a, big.NewInt(1)).String()
			case 3:
				f.Amount = new(big.Int).Add(a, big.NewInt(1)).String()
			default:
				lim := new(big.Int).Div(a, big.NewInt(int64(n)))
				if lim.Sign() <= 0 {
					lim = big.NewInt(2)
				}
				v := new(big.Int).Rand(r, lim)
				v.Add(v, big.NewInt(1))
				f.Amount = v.String()
			}
		}
		fees = append(fees, f)
	}
	return fees
}
