package checks

import (
	"fmt"
	"math/big"
	"regexp"
	"strings"

	sdkmath "cosmossdk.io/math"
	sdk "github.com/cosmos/cosmos-sdk/types"

	"orbverif/fw"
	"orbverif/run"
	"orbverif/spec"
	"orbverif/world"
)

var nativeBase = regexp.MustCompile(`^[a-zA-Z][a-zA-Z0-9:._-]{2,127}$`)

// setupTwoHop sends the voucher of pair 1 out over pair 0, so that the escrow of pair 0 holds an
// ibc/ denomination and a genuine two-hop voucher can "return" over pair 0.
func setupTwoHop(l *Lab) (string, error) {
	w := l.W
	p0, p1 := w.Channels[0], w.Channels[1]
	v1 := world.VoucherDenom(p1.B, world.USDC) // held by bob
	if _, err := w.Escrow(p0, w.K("bob"), w.K("carol").Addr, sdk.NewCoin(v1, sdkmath.NewInt(1_000_000_000))); err != nil {
		return "", err
	}
	l.Base = w.Branch()
	return world.Port + "/" + p1.B + "/" + world.USDC, nil
}

// CheckC16 crosses the denomination grammar with source ends and amount encodings.
func CheckC16(e *fw.Env, l *Lab) {
	w := l.W
	twoHopInner, err := setupTwoHop(l)
	if err != nil {
		e.Res.Inconc("two-hop setup: %v", err)
		return
	}
	memo := (&spec.Spec{Route: spec.Route{Kind: "internal", To: w.K("rcpt1").String()}}).Memo()
	rcpt := w.K("rcpt1").String()
	amounts := []string{"1000", "1", "+1000", "01000", "0x3e8", "1_000", "1e3", " 1000", "-1", "0", "", "1000.0",
		"115792089237316195423570985008687907853269984665640564039457584007913129639936", "999999999999999999999999"}
	modC := run.Mode{Kind: "C", Mod: w.OrbiterStack()}
	idx := 0
	judge := func(o *run.Obs, pair world.ChannelPair, denomStr, amountStr string, must bool) {
		e.Res.Eval()
		Universal(e.Res, o)
		wtn := map[string]any{"pair": pair, "packet_denom": denomStr, "packet_amount": amountStr, "outcome": o.Res.String(), "delta": o.Delta.String(),
			"stats_delta": run.StatsDelta(o.StatsBefore, o.StatsAfter)}
		if o.Res.Panic != nil || o.Res.Err != nil || o.Res.Ack == nil {
			return
		}
		prefix := world.Port + "/" + pair.B + "/"
		if !o.Success() {
			if must {
				e.Res.Violate(fw.Violation{Property: "C16", Kind: "returning-native-token-refused",
					Detail: fmt.Sprintf("packet with denom %q amount %q refused: %s", denomStr, amountStr, o.Res.AckErr), Witness: wtn})
			}
			return
		}
		// accepted: the token must be a one-hop voucher of this source end with a native base
		base := strings.TrimPrefix(denomStr, prefix)
		if !strings.HasPrefix(denomStr, prefix) || strings.Contains(base, "/") || !nativeBase.MatchString(base) {
			e.Res.Violate(fw.Violation{Property: "C16", Kind: "non-returning-native-token-processed", Tags: map[string]string{"denom_class": denomClass(denomStr, prefix)},
				Detail: fmt.Sprintf("orbiter packet with denom %q from %s accepted", denomStr, prefix), Witness: wtn})
			return
		}
		// the coin ICS-20 credited (escrow debit) vs the coin acted on (recipient credit, statistics)
		esc := EscrowAddr(pair.A)
		var credited []string
		for k, v := range o.Delta.Bal {
			if strings.HasPrefix(k, esc+"|") && v.Sign() < 0 {
				credited = append(credited, fmt.Sprintf("%s:%s", k[len(esc)+1:], new(big.Int).Neg(v)))
			}
		}
		var forwarded []string
		for k, v := range o.Delta.Bal {
			if strings.HasPrefix(k, rcpt+"|") && v.Sign() > 0 {
				forwarded = append(forwarded, fmt.Sprintf("%s:%s", k[len(rcpt)+1:], v))
			}
		}
		var recorded []string
		for k, v := range run.StatsDelta(o.StatsBefore, o.StatsAfter) {
			if strings.HasPrefix(k, "amt|") {
				f := strings.Split(k, "|")
				recorded = append(recorded, fmt.Sprintf("%s:%s", f[len(f)-1], strings.Split(v, "/")[0]))
			}
		}
		if len(credited) != 1 || len(forwarded) != 1 || len(recorded) != 1 || credited[0] != forwarded[0] || credited[0] != recorded[0] ||
			!strings.HasPrefix(credited[0], base+":") {
			e.Res.Violate(fw.Violation{Property: "C16", Kind: "coin-acted-on-differs-from-coin-credited",
				Detail:  fmt.Sprintf("ICS-20 credited %v, forwarded %v, recorded %v (packet denom %q amount %q)", credited, forwarded, recorded, denomStr, amountStr),
				Witness: wtn})
		}
	}
	for pi, pair := range w.Channels {
		prefix := world.Port + "/" + pair.B + "/"
		denoms := HostileDenoms(world.Port, pair.B)
		denoms = append(denoms, prefix+world.USDC, prefix+world.USDN, prefix+world.EURE, prefix+twoHopInner, twoHopInner,
			world.VoucherDenom(pair.B, world.USDC), prefix+world.VoucherDenom(w.Channels[1].B, world.USDC))
		if pi == 0 {
			denoms = append(denoms, prefix+world.BIG)
		}
		for _, dn := range denoms {
			for _, am := range amounts {
				idx++
				if !e.Mine(idx) {
					continue
				}
				dn := dn
				t := run.Transfer{Pair: pair, Denom: strings.TrimPrefix(dn, prefix), RawDenom: &dn, Amount: am,
					Sender: w.K("bob").String(), Receiver: OrbiterReceiver(), Memo: memo}
				e.Log(map[string]any{"transfer": t})
				must := (dn == prefix+world.USDC || dn == prefix+world.USDN) && (am == "1000" || am == "1")
				ctx, _ := l.Base.CacheContext()
				oc := run.Do(w, ctx, t, modC)
				judge(oc, pair, dn, am, must)
				// the balance precondition is what catches a disagreement between the orbiter's and
				// ICS-20's reading of the amount; a fee paid to the orbiter account itself lowers
				// the amount to forward without moving coins, so the adversary adds a self-fee equal
				// to the difference between two readings of the amount string
				if dn == prefix+world.USDC || dn == prefix+world.USDN {
					for _, sf := range selfFees(am) {
						ts := t
						ts.Memo = (&spec.Spec{HasFee: true, Fees: []spec.Fee{{Recipient: OrbiterReceiver(), Amount: sf}}, Route: spec.Route{Kind: "internal", To: rcpt}}).Memo()
						ctx, _ := l.Base.CacheContext()
						os := run.Do(w, ctx, ts, modC)
						judge(os, pair, dn, am, false)
						e.Res.Sig("%s|self-fee|amt=%s|%s", pair.A, amtClass(am), outcomeClass(os))
					}
				}
				ctx, _ = l.Base.CacheContext()
				oh := run.Do(w, ctx, t, run.Mode{Kind: "H"})
				judge(oh, pair, dn, am, must)
				e.Res.Sig("%s|%s|amt=%s|C=%s|H=%s", pair.A, denomClass(dn, prefix), amtClass(am), outcomeClass(oc), outcomeClass(oh))
				if idx%97 == 0 {
					e.Res.Sample(map[string]any{"source_end": prefix, "denom": dn, "amount": am, "outcome_modeC": oc.Res.String(), "outcome_modeH": oh.Res.String()})
				}
			}
		}
	}
	// every forwarding type while the orbiter account holds coins of OTHER denominations (anybody
	// can send coins there): the coin forwarded is the coin credited, the others do not move
	mint := make([]byte, 32)
	mint[31] = 3
	zero := "0"
	orb := world.OrbiterAddr().String()
	all := []string{world.USDC, world.USDN, world.EURE}
	routes := []spec.Route{
		{Kind: "cctp", Domain: 0, MintRecipient: mint},
		{Kind: "cctp", Domain: 2, MintRecipient: mint, Caller: mint},
		{Kind: "hyp", Domain: 1, TokenID: w.Hyp.TokenUSDC.Bytes(), Recipient: mint, GasLimit: &zero, MaxFee: &spec.Coin{Denom: world.USDN, Amount: "0"}},
		{Kind: "hyp", Domain: 10, TokenID: w.Hyp.TokenUSDN.Bytes(), Recipient: mint, GasLimit: &zero, MaxFee: &spec.Coin{Denom: world.USDN, Amount: "0"}},
		{Kind: "internal", To: rcpt},
		// a positive maximum interchain fee in the transferred denomination itself: an upper bound
		// on what the mailbox's hooks may charge, not a part of the coin to set aside
		{Kind: "hyp", Domain: 1, TokenID: w.Hyp.TokenUSDC.Bytes(), Recipient: mint, GasLimit: &zero, MaxFee: &spec.Coin{Denom: world.USDC, Amount: "2500"}},
		{Kind: "hyp", Domain: 10, TokenID: w.Hyp.TokenUSDN.Bytes(), Recipient: mint, GasLimit: &zero, MaxFee: &spec.Coin{Denom: world.USDN, Amount: "777"}},
	}
	for pi, pair := range w.Channels {
		for di, dn := range all {
			for ri, rt := range routes {
				if !e.Mine(pi*100 + di*10 + ri) {
					continue
				}
				ctx, _ := l.Base.CacheContext()
				held := map[string]string{}
				for _, od := range all {
					if od != dn {
						amt := big.NewInt(int64(1_000_000 + e.R.Intn(9_000_000)))
						if Deposit(w, ctx, w.K("carol"), od, amt) == nil {
							held[od] = amt.String()
						}
					}
				}
				s := &spec.Spec{Route: rt}
				if e.R.Intn(2) == 0 {
					s.HasFee, s.Fees = true, []spec.Fee{{Recipient: w.K("fee1").String(), IsBPS: true, BPS: 50}}
				}
				t := run.Transfer{Pair: pair, Denom: dn, Amount: fmt.Sprint(1000 + e.R.Intn(900_000)), Sender: w.K("bob").String(), Receiver: OrbiterReceiver(), Spec: s}
				e.Log(map[string]any{"transfer": t, "orbiter_holds": held})
				o := run.Do(w, ctx, t, run.Mode{Kind: "H"})
				e.Res.Eval()
				Universal(e.Res, o)
				if o.Res.Panic != nil || o.Res.Err != nil || o.Res.Ack == nil {
					continue
				}
				if o.Success() {
					for _, od := range all {
						if o.Delta.Of(orb, od).Sign() != 0 {
							e.Res.Violate(fw.Violation{Property: "C16", Kind: "coin-acted-on-differs-from-coin-credited", Tags: map[string]string{"route": rt.Kind},
								Detail: fmt.Sprintf("packet credits %s %s, orbiter account holds %v of other denominations; after a success acknowledgement its %s balance changed by %s (delta %s)",
									t.Amount, dn, held, od, o.Delta.Of(orb, od), o.Delta.String()),
								Witness: map[string]any{"transfer": t, "orbiter_holds": held, "outcome": o.Res.String(), "delta": o.Delta.String()}})
							break
						}
					}
				}
				e.Res.Sig("other-denoms-held|%s|%s|fee=%v|maxfee=%v|%s", rt.Kind, dn, s.HasFee, rt.MaxFee != nil && rt.MaxFee.Amount != "0", outcomeClass(o))
			}
		}
	}
	// random compositions of path segments
	n := e.N(3000, 150000)
	segs := []string{"transfer", "channel-0", "channel-1", "channel-2", "channel-3", "uusdc", "uusdn", "ibc", "", "x", "factory", "transfer/channel-1", "icahost"}
	for i := 0; i < n; i++ {
		pair := w.Channels[e.R.Intn(len(w.Channels))]
		prefix := world.Port + "/" + pair.B + "/"
		k := 1 + e.R.Intn(6)
		parts := make([]string, k)
		for j := range parts {
			parts[j] = segs[e.R.Intn(len(segs))]
		}
		dn := strings.Join(parts, "/")
		if e.R.Intn(2) == 0 {
			dn = prefix + dn
		}
		am := amounts[e.R.Intn(len(amounts))]
		t := run.Transfer{Pair: pair, Denom: strings.TrimPrefix(dn, prefix), RawDenom: &dn, Amount: am,
			Sender: w.K("bob").String(), Receiver: OrbiterReceiver(), Memo: memo}
		e.Log(map[string]any{"transfer": t})
		ctx, _ := l.Base.CacheContext()
		o := run.Do(w, ctx, t, modC)
		judge(o, pair, dn, am, false)
		e.Res.Sig("rand|%s|%s", denomClass(dn, prefix), outcomeClass(o))
	}
}

func denomClass(dn, prefix string) string {
	base := strings.TrimPrefix(dn, prefix)
	switch {
	case dn == "":
		return "empty"
	case !strings.HasPrefix(dn, prefix):
		if strings.HasPrefix(dn, "ibc/") {
			return "ibc-hash"
		}
		if strings.Contains(dn, "/") {
			return "other-prefix"
		}
		return "bare"
	case base == "":
		return "prefix-only"
	case strings.HasPrefix(base, "ibc/"):
		return "one-hop+ibc-hash"
	case strings.HasPrefix(base, "transfer/"):
		return "multi-hop"
	case strings.Contains(base, "/"):
		return "one-hop+slashes"
	case nativeBase.MatchString(base):
		return "one-hop-native"
	}
	return "one-hop+invalid-base"
}

func amtClass(a string) string {
	switch {
	case a == "1000" || a == "1":
		return "canonical"
	case a == "":
		return "empty"
	case strings.HasPrefix(a, "-") || a == "0":
		return "non-positive"
	case len(a) > 40:
		return "huge"
	}
	return "odd-spelling"
}

// selfFees returns the differences between plausible readings of an amount string (decimal,
// Go base-prefixed/octal, digits only).
func selfFees(am string) []string {
	var vals []*big.Int
	for _, base := range []int{10, 0, 8, 16} {
		if v, ok := new(big.Int).SetString(strings.TrimSpace(am), base); ok && v.Sign() > 0 && v.BitLen() < 200 {
			vals = append(vals, v)
		}
	}
	seen := map[string]bool{}
	var out []string
	for _, a := range vals {
		for _, b := range vals {
			d := new(big.Int).Sub(a, b)
			if d.Sign() > 0 && !seen[d.String()] {
				seen[d.String()] = true
				out = append(out, d.String())
			}
		}
	}
	return out
}
