package checks

import (
	"fmt"
	"math/big"
	"strings"
	"sync"

	errorsmod "cosmossdk.io/errors"
	sdkmath "cosmossdk.io/math"
	sdk "github.com/cosmos/cosmos-sdk/types"

	adapterctrl "github.com/noble-assets/orbiter/v2/controller/adapter"
	orbitertypes "github.com/noble-assets/orbiter/v2/types"
	actiontypes "github.com/noble-assets/orbiter/v2/types/controller/action"
	forwardingtypes "github.com/noble-assets/orbiter/v2/types/controller/forwarding"
	"github.com/noble-assets/orbiter/v2/types/core"

	"orbverif/fw"
	"orbverif/spec"
	"orbverif/world"
)

// parseOutcome is the comparable result of one parse.
type parseOutcome struct {
	OK   bool
	JSON string // JSON of the parsed payload (when OK), for display
	Bin  string // binary encoding of the parsed payload (when OK), for comparison
	Err  string
	Code string // codespace/code of the error (registered error identity)
	P    *core.Payload
}

// same reports whether two outcomes are the same result: same acceptance, same payload, same
// registered error. The free text of the error is compared separately (see C19).
func (a parseOutcome) same(b parseOutcome) bool {
	return a.OK == b.OK && a.Bin == b.Bin && a.Code == b.Code
}

func parseMemo(p *adapterctrl.IBCParser, w *world.World, memo string) (out parseOutcome) {
	defer func() {
		if r := recover(); r != nil {
			out = parseOutcome{Err: fmt.Sprintf("PANIC: %v", r)}
		}
	}()
	pl, err := p.ParsePayload([]byte(memo))
	if err != nil {
		cs, code, _ := errorsmod.ABCIInfo(err, false)
		return parseOutcome{Err: err.Error(), Code: fmt.Sprintf("%s/%d", cs, code)}
	}
	bz, err := orbitertypes.MarshalJSON(w.Cdc, pl)
	if err != nil {
		return parseOutcome{Err: "re-marshal: " + err.Error()}
	}
	bin, err := w.Cdc.Marshal(pl)
	if err != nil {
		return parseOutcome{Err: "re-marshal: " + err.Error()}
	}
	return parseOutcome{OK: true, JSON: string(bz), Bin: string(bin), P: pl}
}

// buildWithConstructors builds the payload of a spec through the module's public constructors.
func buildWithConstructors(s *spec.Spec) (*core.PayloadWrapper, error) {
	var fwd *core.Forwarding
	var err error
	switch s.Route.Kind {
	case "cctp":
		fwd, err = forwardingtypes.NewCCTPForwarding(s.Route.Domain, s.Route.MintRecipient, s.Route.Caller, s.Passthrough)
	case "hyp":
		gl := sdkmath.ZeroInt()
		if s.Route.GasLimit != nil {
			v, ok := sdkmath.NewIntFromString(*s.Route.GasLimit)
			if !ok {
				return nil, fmt.Errorf("bad gas limit")
			}
			gl = v
		}
		fee := sdk.NewCoin(world.USDN, sdkmath.ZeroInt())
		if s.Route.MaxFee != nil {
			v, ok := sdkmath.NewIntFromString(s.Route.MaxFee.Amount)
			if !ok {
				return nil, fmt.Errorf("bad max fee")
			}
			fee = sdk.Coin{Denom: s.Route.MaxFee.Denom, Amount: v}
		}
		fwd, err = forwardingtypes.NewHyperlaneForwarding(s.Route.TokenID, s.Route.Domain, s.Route.Recipient, s.Route.HookID, s.Route.Metadata, gl, fee, s.Passthrough)
	case "internal":
		fwd, err = forwardingtypes.NewInternalForwarding(s.Route.To)
		if err == nil && len(s.Passthrough) > 0 {
			fwd.PassthroughPayload = s.Passthrough
		}
	}
	if err != nil {
		return nil, err
	}
	var actions []*core.Action
	if s.HasFee {
		var infos []*actiontypes.FeeInfo
		for _, f := range s.Fees {
			var ft interface{}
			if f.IsBPS {
				ft, err = actiontypes.NewFeeBasisPoints(uint32(f.BPS))
			} else {
				ft, err = actiontypes.NewFeeAmount(f.Amount)
			}
			if err != nil {
				return nil, err
			}
			var fi *actiontypes.FeeInfo
			switch t := ft.(type) {
			case *actiontypes.FeeInfo_BasisPoints_:
				fi, err = actiontypes.NewFeeInfo(f.Recipient, t)
			case *actiontypes.FeeInfo_Amount_:
				fi, err = actiontypes.NewFeeInfo(f.Recipient, t)
			}
			if err != nil {
				return nil, err
			}
			infos = append(infos, fi)
		}
		a, err := actiontypes.NewFeeAction(infos...)
		if err != nil {
			return nil, err
		}
		actions = append(actions, a)
	}
	return core.NewPayloadWrapper(fwd, actions...)
}

var supportedProtoNames = map[string]bool{"PROTOCOL_IBC": true, "PROTOCOL_CCTP": true, "PROTOCOL_HYPERLANE": true, "PROTOCOL_INTERNAL": true}
var supportedActionNames = map[string]bool{"ACTION_FEE": true, "ACTION_SWAP": true}

// expectAccept computes, from the mutation alone, whether the parser must accept ("yes"), must
// refuse ("no") or is free ("either").
func expectAccept(m MemoMut) string {
	if m.Malformed {
		return "no"
	}
	if strings.HasPrefix(m.Kind, "attrs=") {
		if strings.Contains(m.Site, "pre_actions") {
			return "yes" // well-formed fee attributes in action position
		}
		return "either" // a registered forwarding type under some protocol id: accepted by the parser
	}
	site := stripIdxAll(m.Site)
	isProto := site == "orbiter.forwarding.protocol_id"
	isAction := site == "orbiter.pre_actions[].id"
	if isProto || isAction {
		switch {
		case strings.HasPrefix(m.Kind, "enum-num-"):
			n := strings.TrimPrefix(m.Kind, "enum-num-")
			max := "4"
			if isAction {
				max = "2"
			}
			if len(n) == 1 && n >= "1" && n <= max {
				return "yes"
			}
			return "no"
		case strings.HasPrefix(m.Kind, "str-alt"):
			return "alt" // decided by the substituted string, see below
		case m.Kind == "delete" || m.Kind == "null" || m.Kind == "num0" || m.Kind == "strempty":
			return "no" // identifier absent or zero = UNSUPPORTED
		}
	}
	if strings.HasSuffix(site, ".@type") && strings.HasPrefix(m.Kind, "str-alt") {
		return "alt-type"
	}
	return "either"
}

// CheckC15 exercises the parser: acceptance, round trip and purity.
func CheckC15(e *fw.Env, l *Lab) {
	w := l.W
	p1, err := adapterctrl.NewIBCParser(w.Cdc)
	if err != nil {
		e.Res.Inconc("parser: %v", err)
		return
	}
	p2, _ := adapterctrl.NewIBCParser(w.Cdc)

	// 1. round trip of constructor-built payloads and acceptance of hand-rendered memos.
	n := e.N(12000, 400000)
	for i := 0; i < n; i++ {
		t, hs := genHostile(e.R, l, 100)
		s := t.Spec
		switch e.R.Intn(4) {
		case 0:
			s.Passthrough = make([]byte, e.R.Intn(4096))
			e.R.Read(s.Passthrough)
		case 1:
			s.Passthrough = []byte{0}
		}
		e.Res.Eval()
		e.Log(map[string]any{"spec": s})
		pw, err := buildWithConstructors(s)
		if err != nil {
			e.Res.Count("constructor-refused")
			continue
		}
		memoBz, err := orbitertypes.MarshalJSON(w.Cdc, pw)
		if err != nil {
			e.Res.Violate(fw.Violation{Property: "C15", Kind: "constructed-payload-does-not-marshal", Detail: err.Error(), Witness: s})
			continue
		}
		got := parseMemo(p1, w, string(memoBz))
		if !got.OK {
			e.Res.Violate(fw.Violation{Property: "C15", Kind: "constructed-payload-does-not-parse-back", Tags: map[string]string{"route": s.Route.Kind},
				Detail: "memo built by the constructors is refused by the parser: " + got.Err, Witness: map[string]any{"spec": s, "memo": string(memoBz)}})
			continue
		}
		if !payloadEqual(w, got.P, pw.Orbiter) {
			e.Res.Violate(fw.Violation{Property: "C15", Kind: "round-trip-not-equal", Tags: map[string]string{"route": s.Route.Kind},
				Detail: fmt.Sprintf("parse(marshal(p)) != p: %s vs %s", got.JSON, string(memoBz)), Witness: map[string]any{"spec": s, "memo": string(memoBz)}})
			continue
		}
		// attributes must be usable after parsing (cached values unpacked)
		if _, err := got.P.Forwarding.CachedAttributes(); err != nil {
			e.Res.Violate(fw.Violation{Property: "C15", Kind: "parsed-attributes-not-unpacked", Detail: err.Error(), Witness: s})
			continue
		}
		// the hand-rendered memo of the same spec must parse to the same payload
		hand := parseMemo(p2, w, s.Memo())
		if !hand.OK || hand.Bin != got.Bin {
			e.Res.Violate(fw.Violation{Property: "C15", Kind: "well-formed-memo-refused-or-different", Tags: map[string]string{"route": s.Route.Kind},
				Detail:  fmt.Sprintf("hand-rendered memo: ok=%v err=%s json=%s; constructor memo parses to %s", hand.OK, hand.Err, trunc(hand.JSON, 300), trunc(got.JSON, 300)),
				Witness: map[string]any{"spec": s, "memo": s.Memo()}})
			continue
		}
		e.Res.Sig("roundtrip|%s|%s|pt=%d", hs.RouteCls, hs.FeeCls, lenClass(len(s.Passthrough)))
		if i < 2 {
			e.Res.Sample(map[string]any{"spec": s, "memo": trunc(string(memoBz), 400), "parsed_back_equal": true})
		}
	}

	// 2. every single-point mutation: acceptance predicate + purity.
	idx := 0
	for _, tpl := range l.Templates() {
		orig := parseMemo(p1, w, tpl.Spec.Memo())
		if !orig.OK {
			e.Res.Violate(fw.Violation{Property: "C15", Kind: "well-formed-memo-refused-or-different", Detail: "template refused: " + orig.Err, Witness: tpl.Spec})
			continue
		}
		for _, m := range MutateMemo(tpl) {
			idx++
			if !e.Mine(idx) {
				continue
			}
			e.Res.Eval()
			e.Log(map[string]any{"mut": m})
			a := parseMemo(p1, w, m.Memo)
			// purity: other memos in between, second instance, same instance again
			parseMemo(p1, w, tpl.Spec.Memo())
			b := parseMemo(p2, w, m.Memo)
			c := parseMemo(p1, w, m.Memo)
			wtn := map[string]any{"mutation": m.Kind, "site": m.Site, "template": m.Template, "memo": trunc(m.Memo, 1500)}
			if strings.HasPrefix(m.Kind, "oneof-") {
				// many parses: the codec resolves oneof members in map iteration order
				for k := 0; k < 60 && a.same(c); k++ {
					c = parseMemo(p1, w, m.Memo)
				}
			}
			if !a.same(b) || !a.same(c) {
				e.Res.Violate(fw.Violation{Property: "C15", Kind: "parsing-not-pure", Detail: fmt.Sprintf("results differ: %v/%s | %v/%s | %v/%s", a.OK, a.Err, b.OK, b.Err, c.OK, c.Err), Witness: wtn})
				continue
			}
			if a.Err != b.Err || a.Err != c.Err {
				// same refusal, different wording: matters where the text is committed (C19)
				e.Res.Violate(fw.Violation{Property: "C19", Kind: "nondeterministic-error-text", Tags: map[string]string{"where": "parser"},
					Detail: fmt.Sprintf("%q vs %q vs %q", a.Err, b.Err, c.Err), Witness: wtn})
			}
			if strings.HasPrefix(a.Err, "PANIC") {
				e.Res.Violate(fw.Violation{Property: "C14", Kind: "panic", Tags: map[string]string{"site": "parser"}, Detail: a.Err, Witness: wtn})
				continue
			}
			exp := expectAccept(m)
			switch exp {
			case "alt":
				// substituted identifier string: accepted iff it names a supported id of the right enum
				node := memoStringAt(m)
				set := supportedProtoNames
				if strings.Contains(m.Site, "pre_actions") {
					set = supportedActionNames
				}
				if set[node] {
					exp = "yes"
				} else {
					exp = "no"
				}
			case "alt-type":
				// another registered type of the same interface may or may not fit the fields that
				// are present (field names overlap between types); anything else must be refused
				node := memoStringAt(m)
				origType := origTypeAt(tpl, m)
				registered := map[string]bool{spec.TypeCCTP: true, spec.TypeHyp: true, spec.TypeInternal: true}
				if strings.Contains(m.Site, "pre_actions") {
					registered = map[string]bool{spec.TypeFee: true}
				}
				switch {
				case node == origType:
					exp = "yes"
				case registered[node]:
					exp = "either"
				default:
					exp = "no"
				}
			}
			cls := tpl.Name + "|" + stripIdxAll(m.Site) + "|" + m.Kind
			switch {
			case exp == "no" && a.OK:
				e.Res.Violate(fw.Violation{Property: "C15", Kind: "ill-formed-memo-accepted", Tags: map[string]string{"class": stripIdxAll(m.Site) + "|" + m.Kind},
					Detail: "parser accepted a memo that is not a well-formed payload: " + cls + " -> " + trunc(a.JSON, 300), Witness: wtn})
			case exp == "yes" && !a.OK:
				e.Res.Violate(fw.Violation{Property: "C15", Kind: "well-formed-memo-refused-or-different", Tags: map[string]string{"class": stripIdxAll(m.Site) + "|" + m.Kind},
					Detail: "parser refused a well-formed memo: " + cls + ": " + a.Err, Witness: wtn})
			case m.Kind == "dup-key-same" && a.OK && a.Bin != orig.Bin:
				e.Res.Violate(fw.Violation{Property: "C15", Kind: "duplicate-key-changes-payload", Detail: cls, Witness: wtn})
			}
			e.Res.Sig("mut|%s|%s|%s|%s|accepted=%v", tpl.Name, m.Site, m.Kind, exp, a.OK)
			if idx%1499 == 0 {
				e.Res.Sample(map[string]any{"mutation": m.Kind, "site": m.Site, "expect_accept": exp, "accepted": a.OK, "error": trunc(a.Err, 200)})
			}
		}
	}

	// 2b. payloads with two defects: WHICH refusal is reported must not vary between parses.
	var multi []string
	for _, mm := range MultiDefectMemos(l) {
		multi = append(multi, mm)
	}
	for _, tpl := range l.Templates() {
		for _, m := range DoubleMutations(tpl, e.R.Intn, e.N(2000, 60000)/len(l.Templates())) {
			multi = append(multi, m.Memo)
		}
	}
	for i, memo := range multi {
		e.Res.Eval()
		e.Log(map[string]any{"multi_defect_memo": memo})
		first := parseMemo(p1, w, memo)
		if strings.HasPrefix(first.Err, "PANIC") {
			e.Res.Violate(fw.Violation{Property: "C14", Kind: "panic", Tags: map[string]string{"site": "parser"}, Detail: first.Err, Witness: trunc(memo, 1500)})
			continue
		}
		pure := true
		for k := 0; k < 24; k++ {
			p := p1
			if k%2 == 1 {
				p = p2
			}
			again := parseMemo(p, w, memo)
			if !first.same(again) {
				e.Res.Violate(fw.Violation{Property: "C15", Kind: "parsing-not-pure", Tags: map[string]string{"input": "multi-defect"},
					Detail:  fmt.Sprintf("the same memo gave %v/%s/%s and then %v/%s/%s", first.OK, first.Code, trunc(first.Err, 150), again.OK, again.Code, trunc(again.Err, 150)),
					Witness: trunc(memo, 1500)})
				pure = false
				break
			}
		}
		if pure && i%7 == 0 {
			e.Res.Sig("multi-defect|accepted=%v|%s", first.OK, first.Code)
		}
	}

	// 2c. every list of 1..4 action identifiers over the supported ones: accepted iff the
	// identifiers are distinct (wherever in the list the repeat sits)
	if e.Shard == 0 {
		rt := l.Templates()[0].Spec.Route
		fee := []spec.Fee{{Recipient: FeeRecipients(w)[0], IsBPS: true, BPS: 10}}
		var lists [][]string
		var gen func(cur []string)
		gen = func(cur []string) {
			if len(cur) > 0 {
				lists = append(lists, append([]string(nil), cur...))
			}
			if len(cur) == 4 {
				return
			}
			for _, a := range []string{"fee", "swap"} {
				gen(append(cur, a))
			}
		}
		gen(nil)
		for _, order := range lists {
			var fees [][]spec.Fee
			seen, repeat := map[string]bool{}, false
			for _, a := range order {
				if a == "fee" {
					fees = append(fees, fee)
				}
				if seen[a] {
					repeat = true
				}
				seen[a] = true
			}
			memo := actionsMemo(order, fees, rt)
			got := parseMemo(p1, w, memo)
			e.Res.Eval()
			switch {
			case repeat && got.OK:
				e.Res.Violate(fw.Violation{Property: "C15", Kind: "ill-formed-memo-accepted", Tags: map[string]string{"class": "repeated-action-id"},
					Detail: fmt.Sprintf("pre-actions %v repeat an identifier and the payload is accepted", order), Witness: map[string]any{"memo": memo}})
			case !repeat && !got.OK:
				e.Res.Violate(fw.Violation{Property: "C15", Kind: "well-formed-memo-refused-or-different", Tags: map[string]string{"class": "distinct-action-ids"},
					Detail: fmt.Sprintf("pre-actions %v are distinct and the payload is refused: %s", order, got.Err), Witness: map[string]any{"memo": memo}})
			}
			e.Res.Sig("action-id-list|%s|accepted=%v", strings.Join(order, ","), got.OK)
		}
	}

	// 3. purity under concurrency: 8 goroutines parse the same corpus, results must agree.
	var corpus []string
	for _, tpl := range l.Templates() {
		muts := MutateMemo(tpl)
		for i := e.Shard; i < len(muts); i += 7 * e.Shards {
			if len(muts[i].Memo) < 5000 {
				corpus = append(corpus, muts[i].Memo)
			}
		}
		corpus = append(corpus, tpl.Spec.Memo())
	}
	ref := make([]parseOutcome, len(corpus))
	for i, m := range corpus {
		ref[i] = parseMemo(p1, w, m)
	}
	var wg sync.WaitGroup
	var mu sync.Mutex
	mismatch := -1
	for g := 0; g < 8; g++ {
		wg.Add(1)
		go func(g int) {
			defer wg.Done()
			p, _ := adapterctrl.NewIBCParser(w.Cdc)
			if g%2 == 0 {
				p = p1 // shared instance
			}
			for k := 0; k < len(corpus); k++ {
				i := (k*7 + g*13) % len(corpus)
				got := parseMemo(p, w, corpus[i])
				if !got.same(ref[i]) {
					mu.Lock()
					mismatch = i
					mu.Unlock()
				}
			}
		}(g)
	}
	wg.Wait()
	e.Res.CountN("concurrent-parses", 8*len(corpus))
	e.Res.Evaluations += 8 * len(corpus)
	if mismatch >= 0 {
		e.Res.Violate(fw.Violation{Property: "C15", Kind: "parsing-not-pure", Tags: map[string]string{"mode": "concurrent"},
			Detail: "a concurrent parse gave a different result", Witness: trunc(corpus[mismatch], 1000)})
	}
	_ = big.NewInt
}

// payloadEqual compares two payloads by their binary and JSON encodings.
func payloadEqual(w *world.World, a, b *core.Payload) bool {
	ab, err1 := w.Cdc.Marshal(a)
	bb, err2 := w.Cdc.Marshal(b)
	if err1 != nil || err2 != nil || string(ab) != string(bb) {
		return false
	}
	aj, err1 := orbitertypes.MarshalJSON(w.Cdc, a)
	bj, err2 := orbitertypes.MarshalJSON(w.Cdc, b)
	return err1 == nil && err2 == nil && string(aj) == string(bj)
}

func lenClass(n int) int {
	switch {
	case n == 0:
		return 0
	case n == 1:
		return 1
	case n < 256:
		return 255
	}
	return 4096
}

// memoStringAt extracts the string now standing at the mutated site of a str-alt mutation.
func memoStringAt(m MemoMut) string {
	// the alternative strings are rendered verbatim: find by re-deriving from the kind index
	var idx int
	fmt.Sscanf(strings.TrimPrefix(m.Kind, "str-alt"), "%d", &idx)
	site := stripIdxAll(m.Site)
	var alts []string
	switch {
	case strings.HasSuffix(site, ".@type"):
		alts = []string{spec.TypeFee, spec.TypeCCTP, spec.TypeInternal, spec.TypeHyp,
			"/cosmos.bank.v1beta1.MsgSend", "/noble.orbiter.core.v1.Payload", "/x.y.Z", "noble.orbiter.controller.forwarding.v1.CCTPAttributes", "/"}
	default:
		alts = []string{"PROTOCOL_UNSUPPORTED", "PROTOCOL_IBC", "PROTOCOL_CCTP", "PROTOCOL_HYPERLANE", "PROTOCOL_INTERNAL",
			"ACTION_UNSUPPORTED", "ACTION_FEE", "ACTION_SWAP", "protocol_cctp", "5", "-1"}
	}
	if idx < len(alts) {
		return alts[idx]
	}
	return ""
}

func origTypeAt(tpl MemoTemplate, m MemoMut) string {
	if strings.Contains(m.Site, "pre_actions") {
		return spec.TypeFee
	}
	switch tpl.Spec.Route.Kind {
	case "cctp":
		return spec.TypeCCTP
	case "hyp":
		return spec.TypeHyp
	}
	return spec.TypeInternal
}
