package checks

import (
	"encoding/json"
	"fmt"
	"math/big"
	"strings"

	"orbverif/fw"
	"orbverif/run"
	"orbverif/spec"
	"orbverif/world"
)

func bridgeString(b []run.BridgeCall) string {
	bz, _ := json.Marshal(b)
	return string(bz)
}

// thirdPartyDelta renders the delta restricted to accounts other than orbiter and dust.
func thirdPartyDelta(d *world.Delta) string {
	orb := world.OrbiterAddr().String() + "|"
	dust := world.DustAddr().String() + "|"
	c := &world.Delta{Bal: map[string]*big.Int{}, Supply: d.Supply}
	for k, v := range d.Bal {
		if strings.HasPrefix(k, orb) || strings.HasPrefix(k, dust) {
			continue
		}
		c.Bal[k] = v
	}
	return c.String()
}

// CheckC11 runs every packet twice from the same state: with an empty orbiter account and after
// real deposits, and requires identical outcomes.
func CheckC11(e *fw.Env, l *Lab) {
	w := l.W
	n := e.N(3000, 100000)
	orb := world.OrbiterAddr().String()
	dust := world.DustAddr().String()
	for i := 0; i < n; i++ {
		var t run.Transfer
		var hs hostileSetup
		if e.R.Intn(6) == 0 {
			// Hyperlane with the interchain gas paymaster as custom hook: the only route that asks
			// the sender account for additional coins.
			denom := []string{world.USDC, world.USDN}[e.R.Intn(2)]
			tok := w.Hyp.TokenUSDC.Bytes()
			if denom == world.USDN {
				tok = w.Hyp.TokenUSDN.Bytes()
			}
			gl := []string{"0", "1000", "200000"}[e.R.Intn(3)]
			rt := spec.Route{Kind: "hyp", Domain: w.Hyp.IGPDomains[e.R.Intn(len(w.Hyp.IGPDomains))], TokenID: tok, Recipient: evmAddr32(e.R),
				HookID: w.Hyp.IGP.Bytes(), GasLimit: &gl, MaxFee: &spec.Coin{Denom: world.USDN, Amount: "100000000"}}
			t = l.NewTransfer(e.R, denom, GenAmount(e.R, e12), &spec.Spec{Route: rt})
			hs.RouteCls = "hyp:igp-hook"
		} else {
			t, hs = genHostile(e.R, l, 70)
			t.Receiver = OrbiterReceiver()
		}
		t.Seq = uint64(1<<41) + uint64(i)
		// one case in four: the authority has raised the passthrough limit and the packet carries
		// a passthrough payload
		withPT := t.Spec != nil && e.R.Intn(4) == 0
		if withPT {
			t.Spec.Passthrough = make([]byte, 1+e.R.Intn(64))
			hs.FeeCls += "+pt"
			if e.R.Intn(3) == 0 {
				// larger than the limit: refused whatever the orbiter account holds
				t.Spec.Passthrough = make([]byte, 65+e.R.Intn(100))
				hs.FeeCls += "-oversized"
			}
			e.R.Read(t.Spec.Passthrough)
		}
		// deposits
		deps := map[string]*big.Int{}
		nd := 1 + e.R.Intn(4)
		for k := 0; k < nd; k++ {
			d := []string{t.Denom, t.Denom, world.USDC, world.USDN, world.EURE, world.STAKE}[e.R.Intn(6)]
			if d == world.BIG {
				continue
			}
			var amt *big.Int
			switch e.R.Intn(5) {
			case 0:
				amt = big.NewInt(1)
			case 1:
				amt = bigOr0(t.Amount)
				if amt.Sign() <= 0 || amt.Cmp(e12) > 0 {
					amt = big.NewInt(777)
				}
			default:
				amt = GenAmount(e.R, big.NewInt(500_000_000))
			}
			if deps[d] == nil {
				deps[d] = new(big.Int)
			}
			deps[d].Add(deps[d], amt)
		}
		if len(deps) == 0 {
			deps[world.USDN] = big.NewInt(5)
		}
		// dust beyond 64 bits: only ubig has the supply; the coins first leave the escrow through
		// an ordinary orbiter transfer to carol (in both runs), who then deposits them (second run)
		var pre *run.Transfer
		if t.Denom == world.BIG && e.R.Intn(2) == 0 {
			h := pow2(uint(63 + e.R.Intn(150)))
			pre = &run.Transfer{Pair: w.Channels[0], Denom: world.BIG, Amount: h.String(), Sender: w.K("bob").String(), Receiver: OrbiterReceiver(),
				Spec: &spec.Spec{Route: spec.Route{Kind: "internal", To: w.K("carol").String()}}, Seq: uint64(1<<43) + uint64(i)}
			deps[world.BIG] = h
			hs.FeeCls += "+huge-dust"
		}
		depStr := map[string]string{}
		for d, v := range deps {
			depStr[d] = v.String()
		}
		e.Log(map[string]any{"transfer": t, "deposits": depStr})

		ctxA, _ := l.Base.CacheContext()
		ctxB, _ := l.Base.CacheContext()
		if withPT {
			UpdateParams(w, ctxA, 64)
			UpdateParams(w, ctxB, 64)
		}
		okDeps := true
		if pre != nil {
			pa, pb := run.Do(w, ctxA, *pre, run.Mode{Kind: "H"}), run.Do(w, ctxB, *pre, run.Mode{Kind: "H"})
			if !pa.Success() || !pb.Success() {
				delete(deps, world.BIG)
				if len(deps) == 0 {
					deps[world.USDN] = big.NewInt(5)
				}
			}
		}
		for d, v := range deps {
			from := w.K("carol")
			if d == world.STAKE {
				from = w.K("dave")
			}
			if err := Deposit(w, ctxB, from, d, v); err != nil {
				okDeps = false
			}
		}
		if !okDeps {
			e.Res.Inconc("deposit failed")
			continue
		}
		// one case in ten: the bank authority has disabled sends of the transferred coin (after
		// the deposits): keeper-level moves are not subject to the flag, and whatever the routes
		// do about it they do it with and without the leftover balance
		if e.R.Intn(10) == 0 {
			w.App.BankKeeper.SetSendEnabled(ctxA, t.Denom, false)
			w.App.BankKeeper.SetSendEnabled(ctxB, t.Denom, false)
			hs.FeeCls += "+send-disabled"
		}
		oa := run.Do(w, ctxA, t, run.Mode{Kind: "H"})
		ob := run.Do(w, ctxB, t, run.Mode{Kind: "H"})
		e.Res.Eval()
		Universal(e.Res, oa)
		Universal(e.Res, ob)
		wtn := map[string]any{"transfer": t, "deposits": depStr,
			"without": map[string]string{"outcome": oa.Res.String(), "delta": oa.Delta.String()},
			"with":    map[string]string{"outcome": ob.Res.String(), "delta": ob.Delta.String()}}
		tags := map[string]string{"route": hs.RouteCls}
		if hs.RouteCls == "hyp:igp-hook" || (t.Spec != nil && t.Spec.Route.Kind == "hyp" && string(t.Spec.Route.HookID) == string(w.Hyp.IGP.Bytes())) {
			tags = map[string]string{"route": "hyp", "hook": "igp"}
		}
		viol := func(kind, detail string) {
			e.Res.Violate(fw.Violation{Property: "C11", Kind: kind, Tags: tags, Detail: detail, Witness: wtn})
		}
		if oa.Res.Panic != nil || ob.Res.Panic != nil {
			if (oa.Res.Panic == nil) != (ob.Res.Panic == nil) {
				viol("outcome-depends-on-preexisting-balance", "panic in only one of the two runs")
			}
			continue
		}
		if string(oa.Res.Ack) != string(ob.Res.Ack) {
			viol("outcome-depends-on-preexisting-balance", fmt.Sprintf("acknowledgement differs: without deposits %s, with deposits %s", oa.Res.String(), ob.Res.String()))
			e.Res.Sig("%s|%s|differs", hs.RouteCls, hs.FeeCls)
			continue
		}
		if thirdPartyDelta(oa.Delta) != thirdPartyDelta(ob.Delta) {
			viol("third-party-delta-depends-on-preexisting-balance", fmt.Sprintf("ledger delta of other accounts differs: {%s} vs {%s}", thirdPartyDelta(oa.Delta), thirdPartyDelta(ob.Delta)))
		}
		if bridgeString(oa.Bridge) != bridgeString(ob.Bridge) {
			// message ids / nonces are equal because both runs start from the same state
			viol("bridge-request-depends-on-preexisting-balance", fmt.Sprintf("bridge request differs: %s vs %s", bridgeString(oa.Bridge), bridgeString(ob.Bridge)))
		}
		sa, sb := run.StatsDelta(oa.StatsBefore, oa.StatsAfter), run.StatsDelta(ob.StatsBefore, ob.StatsAfter)
		if fmt.Sprint(sa) != fmt.Sprint(sb) {
			viol("statistics-depend-on-preexisting-balance", fmt.Sprintf("statistics delta differs: %v vs %v", sa, sb))
		}
		if ob.Success() {
			for d, v := range deps {
				if d == t.Denom {
					if ob.Delta.Of(dust, d).Cmp(v) != 0 || ob.After.Get(orb, d).Sign() != 0 {
						viol("dust-not-swept", fmt.Sprintf("deposit of %s %s: Δdust=%s, orbiter after=%s", v, d, ob.Delta.Of(dust, d), ob.After.Get(orb, d)))
					}
				} else if ob.Delta.Of(orb, d).Sign() != 0 || ob.Delta.Of(dust, d).Sign() != 0 {
					viol("other-denom-balance-moved", fmt.Sprintf("pre-existing %s of another denomination moved: Δorbiter=%s Δdust=%s", d, ob.Delta.Of(orb, d), ob.Delta.Of(dust, d)))
				}
			}
		} else if len(ob.Delta.Bal) != 0 {
			viol("effects-after-refusal", "ledger changed on a refused transfer: "+ob.Delta.String())
		}
		sameDenom := deps[t.Denom] != nil
		e.Res.Sig("%s|%s|%s|same-denom-deposit=%v|ndep=%d", hs.RouteCls, hs.FeeCls, outcomeClass(ob), sameDenom, len(deps))
		if i < 3 {
			e.Res.Sample(wtn)
		}
	}
}
