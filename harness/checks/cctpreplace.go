package checks

import (
	"encoding/base64"
	"fmt"
	"math/big"
	"math/rand"

	ethcrypto "github.com/ethereum/go-ethereum/crypto"

	sdk "github.com/cosmos/cosmos-sdk/types"

	"orbverif/run"
	"orbverif/spec"
	"orbverif/world"
)

// CCTPDeposit performs a real orbiter transfer over CCTP on ctx and returns the CCTP message
// bytes (from the MessageSent event) and a valid attestation signed by the harness' attester.
func CCTPDeposit(l *Lab, ctx sdk.Context, r *rand.Rand, withCaller bool) (msg, att []byte, o *run.Obs, err error) {
	rt := spec.Route{Kind: "cctp", Domain: 0, MintRecipient: evmAddr32(r)}
	if withCaller {
		rt.Caller = evmAddr32(r)
	}
	t := l.NewTransfer(r, world.USDC, big.NewInt(5_000_000), &spec.Spec{Route: rt})
	o = run.Do(l.W, ctx, t, run.Mode{Kind: "H"})
	if !o.Success() {
		return nil, nil, o, fmt.Errorf("deposit transfer failed: %s", o.Res.String())
	}
	for _, e := range o.Res.Events {
		if e.Type != "circle.cctp.v1.MessageSent" {
			continue
		}
		for _, a := range e.Attributes {
			if a.Key == "message" {
				var s string
				if _, err := fmt.Sscanf(a.Value, "%q", &s); err != nil {
					return nil, nil, o, err
				}
				msg, err = base64.StdEncoding.DecodeString(s)
				if err != nil {
					return nil, nil, o, err
				}
			}
		}
	}
	if msg == nil {
		return nil, nil, o, fmt.Errorf("no MessageSent event")
	}
	att, err = Attest(l.W, msg)
	return msg, att, o, err
}

// Attest signs a CCTP message with the harness-owned attester key.
func Attest(w *world.World, msg []byte) ([]byte, error) {
	priv, err := ethcrypto.ToECDSA(w.Attester.Priv)
	if err != nil {
		return nil, err
	}
	return ethcrypto.Sign(ethcrypto.Keccak256(msg), priv)
}
