package checks

import (
	"context"
	"fmt"
	"math/big"
	"strings"

	sdkmath "cosmossdk.io/math"
	sdk "github.com/cosmos/cosmos-sdk/types"

	"github.com/noble-assets/orbiter/v2/controller"
	orbitertypes "github.com/noble-assets/orbiter/v2/types"
	"github.com/noble-assets/orbiter/v2/types/core"

	"orbverif/altstack"
	"orbverif/fw"
	"orbverif/model"
	"orbverif/run"
	"orbverif/spec"
	"orbverif/world"
)

// swapController is a denomination-changing test controller registered under ACTION_SWAP. It
// records the coin it is handed, really swaps it through the bank against a pool account at a
// fixed rate, and sets the destination amount and denom.
type swapController struct {
	*controller.BaseController[core.ActionID]
	w     *world.World
	Num   int64
	Den   int64
	Seen  []string // "amount denom" handed to each invocation
	calls int
}

var _ orbitertypes.ActionController = &swapController{}

func newSwapController(w *world.World) *swapController {
	b, err := controller.NewBase(core.ACTION_SWAP)
	if err != nil {
		panic(err)
	}
	return &swapController{BaseController: b, w: w, Num: 1, Den: 1}
}

func otherDenom(d string) string {
	if d == world.USDC {
		return world.USDN
	}
	return world.USDC
}

func (s *swapController) HandlePacket(ctx context.Context, p *orbitertypes.ActionPacket) error {
	ta := p.TransferAttributes
	in, denom := ta.DestinationAmount(), ta.DestinationDenom()
	s.Seen = append(s.Seen, in.String()+" "+denom)
	out := in.MulRaw(s.Num).QuoRaw(s.Den)
	if !out.IsPositive() {
		return fmt.Errorf("swap output is zero")
	}
	pool := s.w.K("pool").Addr
	bank := s.w.App.BankKeeper
	if err := bank.SendCoins(ctx, world.OrbiterAddr(), pool, sdk.NewCoins(sdk.NewCoin(denom, in))); err != nil {
		return err
	}
	to := otherDenom(denom)
	if err := bank.SendCoins(ctx, pool, world.OrbiterAddr(), sdk.NewCoins(sdk.NewCoin(to, out))); err != nil {
		return err
	}
	// the two setters are independent: controllers may call them in either order, or only the
	// one whose value changes
	s.calls++
	switch {
	case out.Equal(in) && s.calls%2 == 0:
		ta.SetDestinationDenom(to)
	case s.calls%3 == 0:
		ta.SetDestinationDenom(to)
		ta.SetDestinationAmount(out)
	default:
		ta.SetDestinationAmount(out)
		ta.SetDestinationDenom(to)
	}
	return nil
}

// actionsMemo renders a payload with an arbitrary action list ("fee" / "swap").
func actionsMemo(order []string, fees [][]spec.Fee, rt spec.Route) string {
	var acts []string
	fi := 0
	for _, a := range order {
		switch a {
		case "fee":
			acts = append(acts, spec.FeeActionJSON(fees[fi]))
			fi++
		case "swap":
			// the swap action carries (empty) attributes of the only registered action type
			acts = append(acts, fmt.Sprintf(`{"id":"ACTION_SWAP","attributes":{"@type":%q,"fees_info":[]}}`, spec.TypeFee))
		}
	}
	return fmt.Sprintf(`{"orbiter":{"pre_actions":[%s],"forwarding":{"protocol_id":%q,"attributes":%s,"passthrough_payload":""}}}`,
		strings.Join(acts, ","), rt.ProtocolName(), rt.AttributesJSON())
}

// CheckC06 folds the action list in the model and compares with what each controller saw.
func CheckC06(e *fw.Env, l *Lab) {
	w := l.W
	swap := newSwapController(w)
	st, err := altstack.New(w, altstack.Options{ExtraActions: []orbitertypes.ActionController{swap}})
	if err != nil {
		e.Res.Inconc("alternative stack: %v", err)
		return
	}
	swapOnly := newSwapController(w)
	stSwapOnly, err := altstack.New(w, altstack.Options{NoFee: true, ExtraActions: []orbitertypes.ActionController{swapOnly}})
	if err != nil {
		e.Res.Inconc("alternative stack: %v", err)
		return
	}
	orders := [][]string{{}, {"fee"}, {"swap"}, {"fee", "swap"}, {"swap", "fee"}, {"fee", "fee"}, {"swap", "swap"}, {"swap", "fee", "swap"}}
	mint := make([]byte, 32)
	n := e.N(2000, 50000)
	zero := "0"
	for i := 0; i < n; i++ {
		order := orders[e.R.Intn(len(orders))]
		srcDenom := []string{world.USDC, world.USDN}[e.R.Intn(2)]
		a := GenAmount(e.R, e12)
		if a.Cmp(big.NewInt(50)) < 0 {
			a = big.NewInt(int64(50 + e.R.Intn(1000)))
		}
		cfg, sw := st, swap
		onlySwapRegistered := e.R.Intn(6) == 0
		if onlySwapRegistered {
			cfg, sw = stSwapOnly, swapOnly
		}
		rates := [][2]int64{{1, 1}, {1, 2}, {2, 1}, {997, 1000}, {3, 7}, {1, 1000000}}
		rate := rates[e.R.Intn(len(rates))]
		sw.Num, sw.Den, sw.Seen = rate[0], rate[1], nil

		// model fold
		amt, denom := new(big.Int).Set(a), srcDenom
		var wantSeen []string
		wantCredits := map[string]*big.Int{} // "addr|denom"
		var fees [][]spec.Fee
		refuse := ""
		either := "" // the outcome is not fixed by this property; if executed, the fold still holds
		seenIDs := map[string]bool{}
		for _, act := range order {
			if seenIDs[act] {
				refuse = "repeated action id"
			}
			seenIDs[act] = true
		}
		if refuse == "" {
			for _, act := range order {
				switch act {
				case "fee":
					f, ok := GenValidFees(e.R, w, amt)
					if !ok || len(f) == 0 {
						f = []spec.Fee{{Recipient: w.K("fee1").String(), IsBPS: true, BPS: 30}}
					}
					// one fee list in eight pays an entry to the orbiter account itself: a fee that
					// does not leave the account. Whether such a transfer is executed is not this
					// property's business (C01 wants it refused); if it is, the running amount is
					// still the amount minus ALL listed fees
					if !onlySwapRegistered && either == "" && len(f) < 5 && amt.Cmp(big.NewInt(40)) > 0 && e.R.Intn(8) == 0 {
						f = append(f, spec.Fee{Recipient: OrbiterReceiver(), Amount: fmt.Sprint(1 + e.R.Intn(9))})
						if fr := model.Fees(amt, f); fr.Verdict == model.Either && fr.Forward != nil {
							either = "fee entry paid to the orbiter account"
						} else {
							f = f[:len(f)-1]
						}
					}
					fees = append(fees, f)
					if onlySwapRegistered {
						refuse = "fee controller not registered"
						continue
					}
					fr := model.Fees(amt, f)
					if fr.Verdict != model.MustSucceed && !(either != "" && fr.Verdict == model.Either && fr.Forward != nil) {
						refuse = "fee list not valid for the running amount: " + fr.Reason
						continue
					}
					for k, fe := range f {
						if fr.PerEntry[k] != nil && canonAddr(fe.Recipient) != canonAddr(OrbiterReceiver()) {
							addTo(wantCredits, canonAddr(fe.Recipient)+"|"+denom, fr.PerEntry[k])
						}
					}
					amt = fr.Forward
				case "swap":
					wantSeen = append(wantSeen, amt.String()+" "+denom)
					out := new(big.Int).Mul(amt, big.NewInt(rate[0]))
					out.Quo(out, big.NewInt(rate[1]))
					if out.Sign() <= 0 {
						refuse = "swap output zero"
						continue
					}
					amt, denom = out, otherDenom(denom)
				}
			}
		} else {
			for _, act := range order {
				if act == "fee" {
					fees = append(fees, []spec.Fee{{Recipient: w.K("fee1").String(), IsBPS: true, BPS: 30}})
				}
			}
		}
		// route for the FINAL denomination
		var rt spec.Route
		switch e.R.Intn(3) {
		case 0:
			rt = spec.Route{Kind: "internal", To: w.K("rcpt2").String()}
		case 1:
			tok := w.Hyp.TokenUSDC.Bytes()
			if denom == world.USDN {
				tok = w.Hyp.TokenUSDN.Bytes()
			}
			mint[31] = byte(1 + e.R.Intn(200))
			rt = spec.Route{Kind: "hyp", Domain: 10, TokenID: tok, Recipient: append([]byte(nil), mint...), GasLimit: &zero, MaxFee: &spec.Coin{Denom: world.USDN, Amount: "0"}}
		default:
			if denom == world.USDC && amt.Cmp(world.BurnLimit.BigInt()) <= 0 {
				mint[31] = byte(1 + e.R.Intn(200))
				rt = spec.Route{Kind: "cctp", Domain: 5, MintRecipient: append([]byte(nil), mint...)}
				if e.R.Intn(2) == 0 {
					rt.Caller = append([]byte(nil), mint...)
				}
			} else {
				rt = spec.Route{Kind: "internal", To: w.K("rcpt3").String()}
			}
		}
		memo := actionsMemo(order, fees, rt)
		t := l.NewTransfer(e.R, srcDenom, a, nil)
		t.Memo = memo
		e.Log(map[string]any{"order": order, "transfer": t, "rate": rate})
		cfg.Rec.Reset(nil)
		ctx, _ := l.Base.CacheContext()
		// coins of the denomination the last action produces already sit on the orbiter account
		// (only the received denomination is swept): whatever the outcome, they are not part of
		// the coin the actions left
		if refuse == "" && either == "" && denom != srcDenom && e.R.Intn(6) == 0 {
			if err := Deposit(w, ctx, w.K("carol"), denom, big.NewInt(int64(1+e.R.Intn(5000)))); err == nil {
				either = "coins of the output denomination already on the orbiter account"
			}
		}
		o := run.Do(w, ctx, t, run.Mode{Kind: "C", Mod: cfg.Module})
		e.Res.Eval()
		MonPanic(e.Res, o)
		if either == "" {
			MonC01(e.Res, o)
		}
		wtn := map[string]any{"order": order, "rate": rate, "amount": a.String(), "denom": srcDenom, "memo": memo, "outcome": o.Res.String(), "delta": o.Delta.String(),
			"swap_saw": sw.Seen, "model_swap_sees": wantSeen, "only_swap_registered": onlySwapRegistered, "outcome_not_fixed_because": either}
		cls := strings.Join(order, ",")
		if cls == "" {
			cls = "none"
		}
		tags := map[string]string{"order": cls}
		if refuse != "" {
			if o.Success() {
				kind := "invalid-action-list-executed"
				if refuse == "repeated action id" {
					kind = "repeated-action-id-accepted"
				}
				e.Res.Violate(fw.Violation{Property: "C06", Kind: kind, Tags: tags, Detail: refuse, Witness: wtn})
			}
			e.Res.Sig("%s|only-swap=%v|refuse:%s|%s", cls, onlySwapRegistered, strings.SplitN(refuse, ":", 2)[0], outcomeClass(o))
			continue
		}
		if !o.Success() && either != "" {
			e.Res.Sig("%s|either:%s|refused", cls, either)
			continue
		}
		if !o.Success() {
			e.Res.Violate(fw.Violation{Property: "C06", Kind: "valid-action-list-refused", Tags: tags, Detail: o.Res.String(), Witness: wtn})
			continue
		}
		// what the swap controller saw
		if strings.Join(sw.Seen, ";") != strings.Join(wantSeen, ";") {
			e.Res.Violate(fw.Violation{Property: "C06", Kind: "action-saw-wrong-coin", Tags: tags,
				Detail: fmt.Sprintf("swap controller was handed %v, the model's running coin is %v", sw.Seen, wantSeen), Witness: wtn})
			continue
		}
		// fee credits in the running denomination
		bad := ""
		for k, v := range wantCredits {
			parts := strings.SplitN(k, "|", 2)
			got := o.Delta.Of(parts[0], parts[1])
			// the internal recipient is never a fee recipient here, so credits are separable
			if got.Cmp(v) != 0 {
				bad = fmt.Sprintf("%s credited %s, model %s", k, got, v)
			}
		}
		if bad != "" {
			e.Res.Violate(fw.Violation{Property: "C06", Kind: "fee-not-on-running-coin", Tags: tags, Detail: bad, Witness: wtn})
			continue
		}
		// the bridge request carries the final coin
		var bridge []altstack.Call
		for _, c := range cfg.Rec.Calls {
			for _, s := range bridgeSites {
				if c.Site == s {
					bridge = append(bridge, c)
				}
			}
		}
		if len(bridge) != 1 {
			e.Res.Violate(fw.Violation{Property: "C06", Kind: "not-exactly-one-bridge-call", Tags: tags, Detail: fmt.Sprint(len(bridge)), Witness: wtn})
			continue
		}
		if diff := compareRequest(bridge[0], &spec.Spec{Route: rt}, denom, amt); diff != "" {
			e.Res.Violate(fw.Violation{Property: "C06", Kind: "forwarded-coin-is-not-last-action-output", Tags: tags,
				Detail: fmt.Sprintf("forwarding request: %s (model final coin %s%s)", diff, amt, denom), Witness: wtn})
			continue
		}
		if either != "" {
			e.Res.Sig("%s|either:%s|executed-with-the-model-coin", cls, either)
			continue
		}
		// statistics: one entry when the denomination is unchanged, two otherwise
		src := fmt.Sprintf("1|%s", t.Pair.A)
		dst := fmt.Sprintf("%d|%s", rt.ProtocolNum(), rt.Counterparty())
		want := map[string]string{"cnt|" + src + "|" + dst: "1"}
		if denom == srcDenom {
			want["amt|"+src+"|"+dst+"|"+srcDenom] = a.String() + "/" + amt.String()
		} else {
			want["amt|"+src+"|"+dst+"|"+srcDenom] = a.String() + "/0"
			want["amt|"+src+"|"+dst+"|"+denom] = "0/" + amt.String()
		}
		got := run.StatsDelta(o.StatsBefore, o.StatsAfter)
		if fmt.Sprint(got) != fmt.Sprint(want) {
			e.Res.Violate(fw.Violation{Property: "C12", Kind: "stats-delta-mismatch", Tags: map[string]string{"route": "denom-changing"},
				Detail: fmt.Sprintf("statistics delta %v, model %v", got, want), Witness: wtn})
			e.Res.Violate(fw.Violation{Property: "C06", Kind: "recorded-coin-is-not-last-action-output", Tags: tags,
				Detail: fmt.Sprintf("statistics delta %v, model %v", got, want), Witness: wtn})
			continue
		}
		e.Res.Sig("%s|only-swap=%v|%s|denom-changed=%v|rate=%d/%d", cls, onlySwapRegistered, rt.Kind, denom != srcDenom, rate[0], rate[1])
		if len(e.Res.Samples) < 3 {
			e.Res.Sample(map[string]any{"order": order, "amount": a.String() + srcDenom, "rate": rate, "swap_controller_saw": sw.Seen, "final_coin": amt.String() + denom, "bridge_request": bridge[0].Req})
		}
	}
	_ = sdkmath.NewInt
}

// SwapLedgerStep runs one VALID transfer with a random action order over {fee, swap} through the
// given alternative stack on ctx (state accumulates) and returns what the model says was received
// and forwarded. It is used by C12/C13 to grow ledgers with denomination-changing transfers.
type SwapStep struct {
	OK        bool
	Pair      world.ChannelPair
	SrcDenom  string
	SrcAmount *big.Int
	DstDenom  string
	DstAmount *big.Int
	Route     spec.Route
	Outcome   string
	Memo      string
}

func SwapLedgerStep(e *fw.Env, l *Lab, st *altstack.Stack, sw *swapController, ctx sdkCtx) SwapStep {
	w := l.W
	orders := [][]string{{"swap"}, {"fee", "swap"}, {"swap", "fee"}, {}, {"fee"}}
	order := orders[e.R.Intn(len(orders))]
	rates := [][2]int64{{1, 1}, {1, 2}, {2, 1}, {3, 7}}
	rate := rates[e.R.Intn(len(rates))]
	sw.Num, sw.Den, sw.Seen = rate[0], rate[1], nil
	src := []string{world.USDC, world.USDN}[e.R.Intn(2)]
	a := big.NewInt(int64(1000 + e.R.Intn(1_000_000)))
	amt, denom := new(big.Int).Set(a), src
	var fees [][]spec.Fee
	for _, act := range order {
		switch act {
		case "fee":
			f := []spec.Fee{{Recipient: w.K("fee1").String(), IsBPS: true, BPS: uint64(1 + e.R.Intn(300))}}
			fees = append(fees, f)
			fr := model.Fees(amt, f)
			amt = fr.Forward
		case "swap":
			out := new(big.Int).Mul(amt, big.NewInt(rate[0]))
			out.Quo(out, big.NewInt(rate[1]))
			amt, denom = out, otherDenom(denom)
		}
	}
	rt := spec.Route{Kind: "internal", To: w.K([]string{"rcpt2", "rcpt3"}[e.R.Intn(2)]).String()}
	if e.R.Intn(3) == 0 {
		tok := w.Hyp.TokenUSDC.Bytes()
		if denom == world.USDN {
			tok = w.Hyp.TokenUSDN.Bytes()
		}
		zero := "0"
		mint := make([]byte, 32)
		mint[31] = 7
		rt = spec.Route{Kind: "hyp", Domain: []uint32{1, 10}[e.R.Intn(2)], TokenID: tok, Recipient: mint, GasLimit: &zero, MaxFee: &spec.Coin{Denom: world.USDN, Amount: "0"}}
	}
	t := l.NewTransfer(e.R, src, a, nil)
	t.Memo = actionsMemo(order, fees, rt)
	st.Rec.Reset(nil)
	o := run.Do(w, ctx, t, run.Mode{Kind: "C", Mod: st.Module})
	e.Res.Eval()
	MonPanic(e.Res, o)
	MonC01(e.Res, o)
	return SwapStep{OK: o.Success(), Pair: t.Pair, SrcDenom: src, SrcAmount: a, DstDenom: denom, DstAmount: amt, Route: rt, Outcome: o.Res.String(), Memo: t.Memo}
}

// RecordSwap folds a swap step into the shadow ledger (one entry when the denomination is
// unchanged, two otherwise).
func (s *Shadow) RecordSwap(st SwapStep) {
	ck := fmt.Sprintf("1|%s|%d|%s", st.Pair.A, st.Route.ProtocolNum(), st.Route.Counterparty())
	s.Count[ck]++
	if st.SrcDenom == st.DstDenom {
		k := ck + "|" + st.SrcDenom
		addTo(s.In, k, st.SrcAmount)
		addTo(s.Out, k, st.DstAmount)
		addTo(s.Fees, k, new(big.Int).Sub(st.SrcAmount, st.DstAmount))
		return
	}
	k1, k2 := ck+"|"+st.SrcDenom, ck+"|"+st.DstDenom
	addTo(s.In, k1, st.SrcAmount)
	addTo(s.Out, k1, new(big.Int))
	addTo(s.In, k2, new(big.Int))
	addTo(s.Out, k2, st.DstAmount)
	s.Mixed[k1], s.Mixed[k2] = true, true
}
