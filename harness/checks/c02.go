package checks

import (
	"math/big"

	"orbverif/fw"
	"orbverif/run"
	"orbverif/spec"
	"orbverif/world"
)

// CheckC02 drives mostly-valid transfers over the whole amount range and every fee shape and
// compares the full-ledger delta with the model; then mixed histories on one accumulating state.
func CheckC02(e *fw.Env, l *Lab) {
	n := e.N(5000, 200000)
	for i := 0; i < n; i++ {
		t, hs := genHostile(e.R, l, 80)
		t.Receiver = OrbiterReceiver()
		hs.RecvCls = "orbiter"
		ctx, _ := l.Base.CacheContext()
		applySetup(e.R, l, ctx, t, &hs, false)
		e.Log(map[string]any{"transfer": t, "setup": hs})
		o := run.Do(l.W, ctx, t, run.Mode{Kind: "H"})
		e.Res.Eval()
		e.Res.Count("outcome:" + outcomeClass(o))
		before := len(e.Res.Violations)
		Universal(e.Res, o)
		attachSetup(e.Res, before, hs)
		if o.Success() {
			e.Res.Sig("%s|%s|bits=%d|dep=%v", hs.RouteCls, hs.FeeCls, bi(t.Amount).BitLen()/16, len(hs.Deposits) > 0)
		}
		if i < 3 {
			e.Res.Sample(map[string]any{"transfer": t, "setup": hs, "outcome": o.Res.String(), "delta": o.Delta.String()})
		}
	}
	// Boundary grid: amount edges x destinations x {no fee, 1 bps, max bps, fixed 1, fixed A-1}.
	idx := 0
	for _, d := range l.Dests {
		for _, a := range AmountEdges() {
			if a.Cmp(d.Max) > 0 {
				continue
			}
			for shape := 0; shape < 5; shape++ {
				idx++
				if !e.Mine(idx) {
					continue
				}
				s := &spec.Spec{Route: d.Make(e.R)}
				rc := FeeRecipients(l.W)
				switch shape {
				case 1:
					s.HasFee, s.Fees = true, []spec.Fee{{Recipient: rc[0], IsBPS: true, BPS: 1}}
				case 2:
					if a.Cmp(big.NewInt(1)) == 0 {
						continue
					}
					s.HasFee, s.Fees = true, []spec.Fee{{Recipient: rc[1], IsBPS: true, BPS: 9999}}
				case 3:
					if a.Cmp(big.NewInt(1)) == 0 {
						continue
					}
					s.HasFee, s.Fees = true, []spec.Fee{{Recipient: rc[2], Amount: "1"}}
				case 4:
					if a.Cmp(big.NewInt(1)) == 0 {
						continue
					}
					s.HasFee, s.Fees = true, []spec.Fee{{Recipient: rc[3], Amount: new(big.Int).Sub(a, big.NewInt(1)).String()}}
				}
				t := l.NewTransfer(e.R, d.Denom, a, s)
				ctx, _ := l.Base.CacheContext()
				e.Log(map[string]any{"transfer": t, "grid": true})
				o := run.Do(l.W, ctx, t, run.Mode{Kind: "H"})
				e.Res.Eval()
				e.Res.Count("grid:" + outcomeClass(o))
				Universal(e.Res, o)
				if o.Success() {
					e.Res.Sig("grid|%s|shape%d|%s", d.Name, shape, a.String())
				}
			}
		}
	}
	// Histories: one accumulating state, interleaved with other users' plain transfers and
	// deposits; conservation is checked per transfer against the ledger of that moment.
	hist := e.N(4, 64)
	for h := 0; h < hist; h++ {
		ctx, _ := l.Base.CacheContext()
		steps := 150
		for s := 0; s < steps; s++ {
			switch e.R.Intn(10) {
			case 0:
				Deposit(l.W, ctx, l.W.K("carol"), []string{world.USDC, world.USDN, world.EURE}[e.R.Intn(3)], GenAmount(e.R, big.NewInt(1_000_000)))
				continue
			case 1:
				// non-orbiter ICS-20 receive to a user
				t, _ := genHostile(e.R, l, 100)
				t.Receiver = l.W.K("dave").String()
				o := run.Do(l.W, ctx, t, run.Mode{Kind: "H"})
				e.Res.Eval()
				Universal(e.Res, o)
				continue
			}
			t, hs := genHostile(e.R, l, 85)
			t.Receiver = OrbiterReceiver()
			if t.Denom == world.BIG && bi(t.Amount).BitLen() > 200 {
				t.Amount = GenAmount(e.R, e14).String()
				if t.Spec.HasFee {
					t.Spec.HasFee, t.Spec.Fees = false, nil
				}
			}
			e.Log(map[string]any{"transfer": t, "history": h, "step": s})
			o := run.Do(l.W, ctx, t, run.Mode{Kind: "H"})
			e.Res.Eval()
			e.Res.Count("hist:" + outcomeClass(o))
			before := len(e.Res.Violations)
			Universal(e.Res, o)
			attachSetup(e.Res, before, map[string]any{"history": h, "step": s, "class": hs})
			if o.Success() {
				e.Res.Sig("hist|%s|%s", hs.RouteCls, hs.FeeCls)
			}
		}
	}
	// histories in which the statistics of the route cannot be updated any more (the only failure
	// the dispatcher swallows): a transfer acknowledged as successful there must still have handed
	// the whole coin to fee recipients and route
	if e.Shard == 5%e.Shards {
		overflowHistoryC01(e, l)
	}
	if e.Shard == 6%e.Shards {
		genesisNearLimitC01(e, l)
	}
}

func attachSetup(res *fw.Result, from int, setup any) {
	for j := from; j < len(res.Violations); j++ {
		if w, ok := res.Violations[j].Witness.(Witness); ok {
			w.Setup = setup
			res.Violations[j].Witness = w
		}
	}
}
