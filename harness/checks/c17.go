package checks

import (
	"encoding/json"
	"fmt"
	"math/big"
	"sort"
	"strings"

	storetypes "cosmossdk.io/store/types"
	sdk "github.com/cosmos/cosmos-sdk/types"

	orbiter "github.com/noble-assets/orbiter/v2"
	orbitertypes "github.com/noble-assets/orbiter/v2/types"
	"github.com/noble-assets/orbiter/v2/types/core"

	"orbverif/fw"
	"orbverif/jm"
	"orbverif/run"
	"orbverif/spec"
	"orbverif/world"
)

func orbiterStoreKey(w *world.World) *storetypes.KVStoreKey { return w.App.GetKey("orbiter") }

// wipeOrbiterStore deletes every key of the orbiter store in ctx.
func wipeOrbiterStore(w *world.World, ctx sdk.Context) {
	st := ctx.KVStore(orbiterStoreKey(w))
	it := st.Iterator(nil, nil)
	var keys [][]byte
	for ; it.Valid(); it.Next() {
		keys = append(keys, append([]byte(nil), it.Key()...))
	}
	it.Close()
	for _, k := range keys {
		st.Delete(k)
	}
}

// initOrbiter runs the module's InitGenesis under recover().
func initOrbiter(w *world.World, ctx sdk.Context, doc []byte) (err error) {
	defer func() {
		if r := recover(); r != nil {
			err = fmt.Errorf("panic: %v", r)
		}
	}()
	orbiter.NewAppModule(w.App.OrbiterKeeper).InitGenesis(ctx, w.Cdc, doc)
	return nil
}

func validateOrbiter(w *world.World, doc []byte) (err error) {
	defer func() {
		if r := recover(); r != nil {
			err = fmt.Errorf("validate panic: %v", r)
		}
	}()
	return orbiter.AppModuleBasic{}.ValidateGenesis(w.Cdc, nil, doc)
}

func exportOrbiter(w *world.World, ctx sdk.Context) []byte {
	return orbiter.NewAppModule(w.App.OrbiterKeeper).ExportGenesis(ctx, w.Cdc)
}

// canonJSON normalises a JSON document (key order, spacing).
func canonJSON(bz []byte) string {
	var v any
	if err := json.Unmarshal(bz, &v); err != nil {
		return string(bz)
	}
	out, _ := json.Marshal(v)
	return string(out)
}

// behaviour runs the probe set on a branch and renders acknowledgements, ledger and statistics deltas.
func behaviour(e *fw.Env, l *Lab, ctx sdk.Context, probes []Dest) string {
	var sb strings.Builder
	for i, d := range probes {
		for _, fee := range []bool{false, true} {
			for _, ptLen := range []int{0, 1, 64, 65} {
				if ptLen > 0 && (i%4 != 0 || fee) {
					continue
				}
				mint := make([]byte, 32)
				mint[31] = byte(1 + i)
				rt := d.Make(e.R)
				// deterministic recipients so that both runs build identical packets
				switch rt.Kind {
				case "cctp":
					rt.MintRecipient = mint
					if len(rt.Caller) > 0 {
						rt.Caller = mint
					}
				case "hyp":
					rt.Recipient = mint
				}
				s := &spec.Spec{Route: rt, Passthrough: make([]byte, ptLen)}
				if fee {
					s.HasFee, s.Fees = true, []spec.Fee{{Recipient: l.W.K("fee3").String(), IsBPS: true, BPS: 25}}
				}
				t := run.Transfer{Pair: l.W.Channels[i%len(l.W.Channels)], Denom: d.Denom, Amount: "777000", Sender: l.W.K("bob").String(),
					Receiver: OrbiterReceiver(), Spec: s, Seq: uint64(1<<43) + uint64(i*16+ptLen) + map[bool]uint64{true: 8, false: 0}[fee]}
				b, _ := ctx.CacheContext()
				o := run.Do(l.W, b, t, run.Mode{Kind: "H"})
				e.Res.Eval()
				Universal(e.Res, o)
				// coins sitting on the orbiter account are bank state, not orbiter genesis: the sweep
				// to the dust collector is left out of the comparison (a fresh chain has no dust)
				fmt.Fprintf(&sb, "%s fee=%v pt=%d: %s | %s | %v\n", d.Name, fee, ptLen, o.Res.String(), thirdPartyDelta(o.Delta), run.StatsDelta(o.StatsBefore, o.StatsAfter))
			}
		}
	}
	return sb.String()
}

// roundTripAt performs the export/validate/init/export cycle for the state in ctx.
func roundTripAt(e *fw.Env, l *Lab, ctx sdk.Context, hist any, withFreshWorld bool) bool {
	w := l.W
	doc := exportOrbiter(w, ctx)
	e.Res.Eval()
	wtn := map[string]any{"history": hist, "exported": trunc(string(doc), 3000)}
	if err := validateOrbiter(w, doc); err != nil {
		e.Res.Violate(fw.Violation{Property: "C17", Kind: "exported-genesis-fails-validation", Detail: err.Error(), Witness: wtn})
		return false
	}
	// the behaviour of the original state is recorded before the re-import runs on the same
	// application object (anything the keeper remembers outside the store would be refreshed by it)
	probes := l.probeSet()
	b1 := behaviour(e, l, ctx, probes)
	re, _ := ctx.CacheContext()
	wipeOrbiterStore(w, re)
	if err := initOrbiter(w, re, doc); err != nil {
		e.Res.Violate(fw.Violation{Property: "C17", Kind: "exported-genesis-fails-to-initialise", Detail: err.Error(), Witness: wtn})
		return false
	}
	doc2 := exportOrbiter(w, re)
	if canonJSON(doc) != canonJSON(doc2) {
		e.Res.Violate(fw.Violation{Property: "C17", Kind: "re-export-differs", Detail: fmt.Sprintf("exported %s\nre-exported %s", trunc(string(doc), 1500), trunc(string(doc2), 1500)), Witness: wtn})
		return false
	}
	// the raw store must be identical too (indexes included)
	d1, d2 := w.StoreDump(ctx)["orbiter"], w.StoreDump(re)["orbiter"]
	if diff := world.StoreDiff(d1, d2, 5); len(diff) > 0 {
		e.Res.Violate(fw.Violation{Property: "C17", Kind: "re-imported-store-differs", Detail: fmt.Sprintf("keys differing: %v", diff), Witness: wtn})
		return false
	}
	// behaviour: same probes on original and re-imported state
	b2 := behaviour(e, l, re, probes)
	if b1 != b2 {
		e.Res.Violate(fw.Violation{Property: "C17", Kind: "behaviour-differs-after-re-import", Detail: firstDiffLine(b1, b2), Witness: wtn})
		return false
	}
	if withFreshWorld {
		l2, err := NewLab(world.Config{OrbiterGenesis: doc, Channels: len(w.Channels)})
		if err != nil {
			e.Res.Violate(fw.Violation{Property: "C17", Kind: "exported-genesis-fails-to-initialise", Tags: map[string]string{"via": "InitChain"}, Detail: err.Error(), Witness: wtn})
			return false
		}
		doc3 := exportOrbiter(l2.W, l2.Base)
		if canonJSON(doc) != canonJSON(doc3) {
			e.Res.Violate(fw.Violation{Property: "C17", Kind: "re-export-differs", Tags: map[string]string{"via": "InitChain"}, Detail: trunc(string(doc3), 1500), Witness: wtn})
			return false
		}
		// same probe list as on the original chain (the fresh chain's own calibration would
		// skip destinations that are paused in the imported genesis)
		b3 := behaviour(e, l2, l2.Base, probes)
		if b1 != b3 {
			e.Res.Violate(fw.Violation{Property: "C17", Kind: "behaviour-differs-after-re-import", Tags: map[string]string{"via": "InitChain"}, Detail: firstDiffLine(b1, b3), Witness: wtn})
			return false
		}
		e.Res.Count("fresh-chain-round-trips")
	}
	e.Res.Count("round-trips")
	return true
}

// genesisMutations derives candidate genesis documents from an exported one.
func genesisMutations(e *fw.Env, doc []byte) []struct{ Kind, Doc string } {
	root, err := jm.Parse(string(doc))
	if err != nil {
		return nil
	}
	var out []struct{ Kind, Doc string }
	add := func(kind string, n *jm.Node) { out = append(out, struct{ Kind, Doc string }{kind, n.String()}) }
	hostileStrings := []string{"", "0", "05", "+5", "-1", "4294967296", "channel-0", "noble", "a\x00b", "\x00", ":", "2:5", strings.Repeat("9", 33), "x y", "💥",
		"PROTOCOL_CCTP", "PROTOCOL_UNSUPPORTED", "ACTION_FEE", "uusdc", "u", "ibc/ABC"}
	hostileNums := []string{"0", "-1", "1", "5", "99", "2147483647", "2147483648", "4294967295", "4294967296", "18446744073709551615", "18446744073709551616", "1.5"}
	for _, st := range jm.Sites(root) {
		if len(st.Path) == 0 {
			continue
		}
		orig, _ := jm.At(root, st.Path)
		add("delete:"+st.Name, jm.Delete(root, st.Path))
		add("null:"+st.Name, jm.Replace(root, st.Path, jm.N(jm.Null)))
		switch st.Kind {
		case jm.Arr:
			if len(orig.Vals) > 0 {
				add("repeat-first:"+st.Name, jm.AppendElem(root, st.Path, orig.Vals[0].Clone()))
				add("repeat-last:"+st.Name, jm.AppendElem(root, st.Path, orig.Vals[len(orig.Vals)-1].Clone()))
				// reversed order
				rev := orig.Clone()
				for i, j := 0, len(rev.Vals)-1; i < j; i, j = i+1, j-1 {
					rev.Vals[i], rev.Vals[j] = rev.Vals[j], rev.Vals[i]
				}
				add("reverse:"+st.Name, jm.Replace(root, st.Path, rev))
			}
			add("append-null:"+st.Name, jm.AppendElem(root, st.Path, jm.N(jm.Null)))
			add("append-empty-obj:"+st.Name, jm.AppendElem(root, st.Path, jm.Object()))
			add("empty:"+st.Name, jm.Replace(root, st.Path, jm.Array()))
			// new elements for the known lists
			switch {
			case strings.HasSuffix(st.Name, "paused_protocol_ids"):
				for _, v := range []string{`"PROTOCOL_CCTP"`, `"PROTOCOL_IBC"`, `2`, `0`, `5`, `"PROTOCOL_UNSUPPORTED"`} {
					add("append-proto:"+v, jm.AppendElem(root, st.Path, jm.RawText(v)))
					add("append-proto-twice:"+v, jm.AppendElem(jm.AppendElem(root, st.Path, jm.RawText(v)), st.Path, jm.RawText(v)))
				}
			case strings.HasSuffix(st.Name, "paused_action_ids"):
				for _, v := range []string{`"ACTION_FEE"`, `"ACTION_SWAP"`, `1`, `0`, `3`} {
					add("append-action:"+v, jm.AppendElem(root, st.Path, jm.RawText(v)))
					add("append-action-twice:"+v, jm.AppendElem(jm.AppendElem(root, st.Path, jm.RawText(v)), st.Path, jm.RawText(v)))
				}
			case strings.HasSuffix(st.Name, "paused_cross_chain_ids"):
				for _, p := range []string{"PROTOCOL_CCTP", "PROTOCOL_INTERNAL", "PROTOCOL_IBC", "PROTOCOL_HYPERLANE"} {
					for _, c := range hostileStrings {
						cj, _ := json.Marshal(c)
						el := jm.RawText(fmt.Sprintf(`{"protocol_id":"%s","counterparty_id":%s}`, p, cj))
						add("append-ccid:"+p+":"+c, jm.AppendElem(root, st.Path, el))
						if e.R.Intn(4) == 0 {
							add("append-ccid-twice:"+p+":"+c, jm.AppendElem(jm.AppendElem(root, st.Path, el), st.Path, el))
						}
					}
				}
			case strings.HasSuffix(st.Name, "dispatched_amounts"), strings.HasSuffix(st.Name, "dispatched_counts"):
				isAmt := strings.HasSuffix(st.Name, "dispatched_amounts")
				for _, sp := range []string{"PROTOCOL_IBC", "PROTOCOL_INTERNAL", "PROTOCOL_CCTP"} {
					for _, c := range hostileStrings {
						cj, _ := json.Marshal(c)
						var el string
						if isAmt {
							el = fmt.Sprintf(`{"source_id":{"protocol_id":"%s","counterparty_id":%s},"destination_id":{"protocol_id":"PROTOCOL_INTERNAL","counterparty_id":%s},"denom":"uusdc","amount_dispatched":{"incoming":"5","outgoing":"4"}}`, sp, cj, cj)
						} else {
							el = fmt.Sprintf(`{"source_id":{"protocol_id":"%s","counterparty_id":%s},"destination_id":{"protocol_id":"PROTOCOL_INTERNAL","counterparty_id":%s},"count":"3"}`, sp, cj, cj)
						}
						add("append-stat:"+sp+":"+c, jm.AppendElem(root, st.Path, jm.RawText(el)))
					}
				}
				for _, dp := range []string{"PROTOCOL_CCTP", "PROTOCOL_HYPERLANE", "PROTOCOL_INTERNAL", "PROTOCOL_IBC"} {
					for _, c := range append([]string{"7", "007", "+7", "0x7", "7 ", "4294967303"}, hostileStrings...) {
						cj, _ := json.Marshal(c)
						var el string
						if isAmt {
							el = fmt.Sprintf(`{"source_id":{"protocol_id":"PROTOCOL_IBC","counterparty_id":"channel-77"},"destination_id":{"protocol_id":"%s","counterparty_id":%s},"denom":"uusdc","amount_dispatched":{"incoming":"5","outgoing":"4"}}`, dp, cj)
						} else {
							el = fmt.Sprintf(`{"source_id":{"protocol_id":"PROTOCOL_IBC","counterparty_id":"channel-77"},"destination_id":{"protocol_id":"%s","counterparty_id":%s},"count":"3"}`, dp, cj)
						}
						add("append-stat-dest:"+dp+":"+c, jm.AppendElem(root, st.Path, jm.RawText(el)))
					}
				}
			}
		case jm.Str:
			for _, h := range hostileStrings {
				add("str:"+st.Name+"="+h, jm.Replace(root, st.Path, jm.S(h)))
			}
			for _, h := range hostileNums {
				add("strnum:"+st.Name+"="+h, jm.Replace(root, st.Path, jm.S(h)))
				add("num:"+st.Name+"="+h, jm.Replace(root, st.Path, jm.Number(h)))
			}
		case jm.Num:
			for _, h := range hostileNums {
				add("num:"+st.Name+"="+h, jm.Replace(root, st.Path, jm.Number(h)))
			}
		}
	}
	return out
}

// CheckC17 chains export -> validate -> init -> export at history checkpoints and checks that
// every generated document accepted by validation initialises.
func CheckC17(e *fw.Env, l *Lab) {
	w := l.W
	// node-local activity that is never committed (simulations, handlers on discarded branches):
	// nothing of it may show in what is exported or in how the chain behaves afterwards
	if e.Shard%2 == 1 {
		tmp, _ := l.Base.CacheContext()
		UpdateParams(w, tmp, 77)
		PauseProtocol(w, tmp, "PROTOCOL_CCTP")
		PauseAction(w, tmp, "ACTION_FEE")
		PauseCrossChains(w, tmp, "PROTOCOL_HYPERLANE", []string{"1", "10"})
		e.Res.Sig("uncommitted-admin-activity-before-the-history")
	}
	hists := e.N(16, 400)
	var lastDoc []byte
	for h := 0; h < hists; h++ {
		ctx, _ := l.Base.CacheContext()
		switch e.R.Intn(4) {
		case 0, 1:
			UpdateParams(w, ctx, 64)
		case 2:
			// any value the authority can set must survive the round trip
			UpdateParams(w, ctx, paramEdges[e.R.Intn(len(paramEdges))])
		}
		sh := NewShadow()
		steps := 60 + e.R.Intn(120)
		fresh := h == 0 && (e.Shard < 4 || e.Thorough())
		pm := NewPauseModel()
		// seed some pause state beyond what History produces
		for k := 0; k < 14; k++ {
			var m AdminMsg
			if e.R.Intn(3) == 0 {
				m = GenExecutorMsg(e.R, w, pm)
			} else {
				m = GenForwarderMsg(e.R, w, pm)
			}
			if m.Expect == "ok" && len(m.IDs) <= 100 {
				if w.Handle(ctx, m.SDK()).Err == nil {
					pm.Apply(m)
				}
			}
		}
		// the same counterparty string under several protocols, protocol-level and action pauses
		if e.R.Intn(2) == 0 {
			for _, cp := range []string{"1", "7", "4294967295"}[:1+e.R.Intn(3)] {
				for _, p := range []string{"PROTOCOL_CCTP", "PROTOCOL_HYPERLANE", "PROTOCOL_INTERNAL"} {
					if e.R.Intn(4) != 0 {
						PauseCrossChains(w, ctx, p, []string{cp})
					}
				}
			}
			if e.R.Intn(2) == 0 {
				PauseProtocol(w, ctx, "PROTOCOL_IBC")
			}
			// a protocol paused as a whole while some of its counterparties are paused too: two
			// independent pieces of state
			if e.R.Intn(2) == 0 {
				PauseProtocol(w, ctx, []string{"PROTOCOL_CCTP", "PROTOCOL_HYPERLANE", "PROTOCOL_INTERNAL"}[e.R.Intn(3)])
			}
			if e.R.Intn(2) == 0 {
				PauseAction(w, ctx, "ACTION_SWAP")
			}
		}
		// large pause state: more entries than any default page size (100)
		if (h+e.Shard)%4 == 1 {
			for b := 0; b < 2; b++ {
				var ids []string
				for k := 0; k < 70; k++ {
					ids = append(ids, fmt.Sprint(1000+b*70+k))
				}
				PauseCrossChains(w, ctx, []string{"PROTOCOL_CCTP", "PROTOCOL_HYPERLANE"}[b], ids)
			}
			var names []string
			for k := 0; k < 90; k++ {
				names = append(names, fmt.Sprintf("dest-%03d", k))
			}
			PauseCrossChains(w, ctx, "PROTOCOL_INTERNAL", names)
		}
		History(e, l, ctx, sh, steps, 45, func(step int, trail []HistOp) bool {
			ok := roundTripAt(e, l, ctx, map[string]any{"history": h, "step": step, "last_ops": trail}, fresh && step > steps/2)
			if ok {
				g := w.App.OrbiterKeeper.ExportGenesis(ctx)
				e.Res.Sig("checkpoint|amounts=%d|counts=%d|pausedP=%d|pausedX=%d|pausedA=%d|pt=%d",
					bucket(len(g.DispatcherGenesis.DispatchedAmounts)), bucket(len(g.DispatcherGenesis.DispatchedCounts)),
					len(g.ForwarderGenesis.PausedProtocolIds), bucket(len(g.ForwarderGenesis.PausedCrossChainIds)), len(g.ExecutorGenesis.PausedActionIds),
					g.AdapterGenesis.Params.MaxPassthroughPayloadSize)
			}
			return ok
		})
		lastDoc = exportOrbiter(w, ctx)
		if h == 0 {
			e.Res.Sample(map[string]any{"exported_genesis_at_end_of_history": trunc(string(lastDoc), 1200)})
		}
	}
	// generated documents: accepted by validation => initialisable
	if lastDoc == nil {
		return
	}
	muts := genesisMutations(e, lastDoc)
	for i, m := range muts {
		if !e.Mine(i) {
			continue
		}
		e.Res.Eval()
		e.Log(map[string]any{"genesis_mutation": m.Kind})
		if err := validateOrbiter(w, []byte(m.Doc)); err != nil {
			if strings.HasPrefix(err.Error(), "validate panic") {
				// a document on which validation crashes is not "accepted by validation": outside
				// the statement, counted for the record (nil math.Int in AmountDispatched)
				e.Res.Count("generated:validation-panicked")
			}
			e.Res.Count("generated:refused-by-validation")
			continue
		}
		ctx, _ := l.Base.CacheContext()
		wipeOrbiterStore(w, ctx)
		if err := initOrbiter(w, ctx, []byte(m.Doc)); err != nil {
			cls := strings.SplitN(m.Kind, ":", 2)[0]
			e.Res.Violate(fw.Violation{Property: "C17", Kind: "validated-genesis-fails-to-initialise", Tags: map[string]string{"class": genesisFailClass(err.Error())},
				Detail:  fmt.Sprintf("document (%s) passes ValidateGenesis but InitGenesis fails: %s", cls, trunc(err.Error(), 300)),
				Witness: map[string]any{"mutation": m.Kind, "doc": trunc(m.Doc, 2500)}})
			continue
		}
		// ... and what was initialised is what the document lists: every entry (by key) is
		// reported by the export, and nothing else
		if want, err := genesisEntries(w, []byte(m.Doc)); err == nil {
			got, _ := genesisEntries(w, exportOrbiter(w, ctx))
			if miss, extra := setDiff(want, got); len(miss)+len(extra) > 0 {
				e.Res.Violate(fw.Violation{Property: "C17", Kind: "genesis-entries-dropped", Tags: map[string]string{"class": strings.SplitN(m.Kind, ":", 2)[0]},
					Detail:  fmt.Sprintf("document (%s) is accepted and initialised, but the state then lacks %v and has in addition %v", strings.SplitN(m.Kind, ":", 2)[0], firstN(miss, 4), firstN(extra, 4)),
					Witness: map[string]any{"mutation": m.Kind, "doc": trunc(m.Doc, 2500)}})
				continue
			}
		}
		e.Res.Count("generated:validated-and-initialised")
		e.Res.Sig("generated|%s|initialised", strings.SplitN(m.Kind, "=", 2)[0])
	}
	_ = big.NewInt
	permutedGenesisC17(e, l, lastDoc)
	if e.Shard == 2%e.Shards {
		largeGenesisC17(e, l)
	}
	if e.Shard == 3%e.Shards {
		idListsGenesisC17(e, l)
	}
}

// permutedGenesisC17: a document whose lists hold the same (distinct) entries in another order
// is the same genesis: it gets the same verdict from validation and initialises to the same
// state as the exported, sorted document.
func permutedGenesisC17(e *fw.Env, l *Lab, doc []byte) {
	w := l.W
	root, err := jm.Parse(string(doc))
	if err != nil {
		return
	}
	type cand struct {
		kind      string
		ref, perm *jm.Node
	}
	var cs []cand
	for _, st := range jm.Sites(root) {
		if st.Kind != jm.Arr {
			continue
		}
		orig, _ := jm.At(root, st.Path)
		ref := root
		switch {
		case strings.HasSuffix(st.Name, "paused_action_ids"):
			ref = jm.Replace(root, st.Path, jm.Array(jm.S("ACTION_FEE"), jm.S("ACTION_SWAP")))
		case strings.HasSuffix(st.Name, "paused_protocol_ids"):
			ref = jm.Replace(root, st.Path, jm.Array(jm.S("PROTOCOL_IBC"), jm.S("PROTOCOL_CCTP"), jm.S("PROTOCOL_HYPERLANE")))
		default:
			if len(orig.Vals) < 2 {
				continue
			}
		}
		cur, _ := jm.At(ref, st.Path)
		rev := cur.Clone()
		for i, j := 0, len(rev.Vals)-1; i < j; i, j = i+1, j-1 {
			rev.Vals[i], rev.Vals[j] = rev.Vals[j], rev.Vals[i]
		}
		cs = append(cs, cand{"reversed:" + st.Name, ref, jm.Replace(ref, st.Path, rev)})
		sh := cur.Clone()
		e.R.Shuffle(len(sh.Vals), func(i, j int) { sh.Vals[i], sh.Vals[j] = sh.Vals[j], sh.Vals[i] })
		cs = append(cs, cand{"shuffled:" + st.Name, ref, jm.Replace(ref, st.Path, sh)})
	}
	for i, c := range cs {
		if !e.Mine(i) {
			continue
		}
		e.Res.Eval()
		e.Log(map[string]any{"genesis_permutation": c.kind})
		refDoc, permDoc := []byte(c.ref.String()), []byte(c.perm.String())
		errRef, errPerm := validateOrbiter(w, refDoc), validateOrbiter(w, permDoc)
		if errRef != nil {
			e.Res.Count("permuted:reference-refused")
			continue
		}
		wit := map[string]any{"permutation": c.kind, "doc": trunc(string(permDoc), 2500)}
		if errPerm != nil {
			e.Res.Violate(fw.Violation{Property: "C17", Kind: "genesis-order-sensitive", Tags: map[string]string{"at": "validate"},
				Detail: "the same entries in another order are refused by validation: " + trunc(errPerm.Error(), 200), Witness: wit})
			continue
		}
		exp := func(d []byte) (string, error) {
			ctx, _ := l.Base.CacheContext()
			wipeOrbiterStore(w, ctx)
			if err := initOrbiter(w, ctx, d); err != nil {
				return "", err
			}
			return canonJSON(exportOrbiter(w, ctx)), nil
		}
		a, errA := exp(refDoc)
		b, errB := exp(permDoc)
		switch {
		case errA != nil:
			e.Res.Count("permuted:reference-not-initialised")
		case errB != nil:
			e.Res.Violate(fw.Violation{Property: "C17", Kind: "validated-genesis-fails-to-initialise", Tags: map[string]string{"class": genesisFailClass(errB.Error())},
				Detail: "the same entries in another order do not initialise: " + trunc(errB.Error(), 200), Witness: wit})
		case a != b:
			e.Res.Violate(fw.Violation{Property: "C17", Kind: "genesis-order-sensitive", Tags: map[string]string{"at": "init"},
				Detail:  "a document with the same entries in another order initialises to a different state: " + firstDiffAt(a, b),
				Witness: wit})
		default:
			e.Res.Count("permuted:same-state")
			e.Res.Sig("permuted|%s", c.kind)
		}
	}
}

func genesisFailClass(msg string) string {
	switch {
	case strings.Contains(msg, "already paused"):
		return "repeated-pause-entry"
	case strings.Contains(msg, "null") || strings.Contains(msg, "\\x00") || strings.Contains(msg, "delimiter"):
		return "nul-in-key"
	case strings.Contains(msg, "nil pointer"):
		return "nil-pointer"
	}
	return "other"
}

func firstDiffAt(a, b string) string {
	i := 0
	for i < len(a) && i < len(b) && a[i] == b[i] {
		i++
	}
	lo := i - 80
	if lo < 0 {
		lo = 0
	}
	return fmt.Sprintf("at byte %d: %q vs %q", i, trunc(a[lo:], 200), trunc(b[lo:], 200))
}

// genesisEntries lists the entries of a genesis document by key (typed decoding, so that
// numeric and symbolic spellings of identifiers coincide). Zero-valued statistics are left out.
func genesisEntries(w *world.World, doc []byte) (out map[string]string, err error) {
	defer func() {
		if r := recover(); r != nil {
			err = fmt.Errorf("panic: %v", r)
		}
	}()
	var gs orbitertypes.GenesisState
	if err := w.Cdc.UnmarshalJSON(doc, &gs); err != nil {
		return nil, err
	}
	out = map[string]string{}
	id := func(c *core.CrossChainID) string {
		if c == nil {
			return "nil"
		}
		return fmt.Sprintf("%d|%q", c.ProtocolId, c.CounterpartyId)
	}
	if gs.AdapterGenesis != nil {
		out["params"] = fmt.Sprint(gs.AdapterGenesis.Params.MaxPassthroughPayloadSize)
	}
	if gs.DispatcherGenesis != nil {
		for _, a := range gs.DispatcherGenesis.DispatchedAmounts {
			if a.AmountDispatched.Incoming.IsNil() || a.AmountDispatched.Outgoing.IsNil() || (a.AmountDispatched.Incoming.IsZero() && a.AmountDispatched.Outgoing.IsZero()) {
				continue
			}
			out["amount|"+id(a.SourceId)+"|"+id(a.DestinationId)+"|"+a.Denom] = a.AmountDispatched.Incoming.String() + "/" + a.AmountDispatched.Outgoing.String()
		}
		for _, c := range gs.DispatcherGenesis.DispatchedCounts {
			if c.Count == 0 {
				continue
			}
			out["count|"+id(c.SourceId)+"|"+id(c.DestinationId)] = fmt.Sprint(c.Count)
		}
	}
	if gs.ForwarderGenesis != nil {
		for _, p := range gs.ForwarderGenesis.PausedProtocolIds {
			out[fmt.Sprintf("paused-protocol|%d", p)] = ""
		}
		for _, c := range gs.ForwarderGenesis.PausedCrossChainIds {
			out["paused-cross-chain|"+id(c)] = ""
		}
	}
	if gs.ExecutorGenesis != nil {
		for _, a := range gs.ExecutorGenesis.PausedActionIds {
			out[fmt.Sprintf("paused-action|%d", a)] = ""
		}
	}
	return out, nil
}

func setDiff(want, got map[string]string) (missing, extra []string) {
	for k, v := range want {
		if g, ok := got[k]; !ok || g != v {
			missing = append(missing, k+"="+v)
		}
	}
	for k, v := range got {
		if _, ok := want[k]; !ok {
			extra = append(extra, k+"="+v)
		}
	}
	sort.Strings(missing)
	sort.Strings(extra)
	return
}

// largeGenesisC17: documents with more entries per list than any default page size (100).
func largeGenesisC17(e *fw.Env, l *Lab) {
	w := l.W
	for _, n := range []int{99, 100, 101, 150, 260} {
		var amounts, counts, paused []string
		for k := 0; k < n; k++ {
			src := fmt.Sprintf(`{"protocol_id":"PROTOCOL_IBC","counterparty_id":"channel-%d"}`, k%17)
			dst := fmt.Sprintf(`{"protocol_id":"%s","counterparty_id":"%d"}`, []string{"PROTOCOL_CCTP", "PROTOCOL_HYPERLANE"}[k%2], k/17)
			amounts = append(amounts, fmt.Sprintf(`{"source_id":%s,"destination_id":%s,"denom":"%s","amount_dispatched":{"incoming":"%d","outgoing":"%d"}}`, src, dst, []string{"uusdc", "uusdn"}[(k/2)%2], 1000+k, 900+k))
			counts = append(counts, fmt.Sprintf(`{"source_id":%s,"destination_id":{"protocol_id":"PROTOCOL_INTERNAL","counterparty_id":"dest-%03d"},"count":"%d"}`, src, k, 1+k))
			paused = append(paused, fmt.Sprintf(`{"protocol_id":"%s","counterparty_id":"%d"}`, []string{"PROTOCOL_CCTP", "PROTOCOL_HYPERLANE", "PROTOCOL_INTERNAL"}[k%3], 5000+k))
		}
		doc := []byte(fmt.Sprintf(`{"adapter_genesis":{"params":{"max_passthrough_payload_size":7}},"dispatcher_genesis":{"dispatched_amounts":[%s],"dispatched_counts":[%s]},"forwarder_genesis":{"paused_protocol_ids":["PROTOCOL_IBC"],"paused_cross_chain_ids":[%s]},"executor_genesis":{"paused_action_ids":["ACTION_FEE"]}}`,
			strings.Join(amounts, ","), strings.Join(counts, ","), strings.Join(paused, ",")))
		e.Res.Eval()
		wtn := map[string]any{"entries_per_list": n}
		if err := validateOrbiter(w, doc); err != nil {
			e.Res.Violate(fw.Violation{Property: "C17", Kind: "well-formed-genesis-refused", Detail: fmt.Sprintf("document with %d distinct well-formed entries per list refused: %v", n, err), Witness: wtn})
			continue
		}
		ctx, _ := l.Base.CacheContext()
		wipeOrbiterStore(w, ctx)
		if err := initOrbiter(w, ctx, doc); err != nil {
			e.Res.Violate(fw.Violation{Property: "C17", Kind: "validated-genesis-fails-to-initialise", Tags: map[string]string{"class": "large"}, Detail: err.Error(), Witness: wtn})
			continue
		}
		want, _ := genesisEntries(w, doc)
		exp := exportOrbiter(w, ctx)
		got, _ := genesisEntries(w, exp)
		if miss, extra := setDiff(want, got); len(miss)+len(extra) > 0 {
			e.Res.Violate(fw.Violation{Property: "C17", Kind: "genesis-entries-dropped", Tags: map[string]string{"class": "large"},
				Detail: fmt.Sprintf("document with %d entries per list: the export after initialisation lacks %d entries (%v) and has %d others", n, len(miss), firstN(miss, 3), len(extra)), Witness: wtn})
			continue
		}
		// and the export chain goes on: validate -> init -> export is a fixed point
		re, _ := l.Base.CacheContext()
		wipeOrbiterStore(w, re)
		if err := initOrbiter(w, re, exp); err != nil || canonJSON(exportOrbiter(w, re)) != canonJSON(exp) {
			e.Res.Violate(fw.Violation{Property: "C17", Kind: "re-export-differs", Tags: map[string]string{"class": "large"}, Detail: fmt.Sprintf("%d entries per list: %v", n, err), Witness: wtn})
			continue
		}
		e.Res.Sig("large-genesis|%d", n)
	}
}

// idListsGenesisC17: every list of up to 4 identifiers (with repeats anywhere) for the paused
// actions and the paused protocols: whatever validation decides, a document it accepts
// initialises, and then holds exactly the identifiers listed.
func idListsGenesisC17(e *fw.Env, l *Lab) {
	w := l.W
	gen := func(alphabet []string, max int) [][]string {
		var out [][]string
		var rec func(cur []string)
		rec = func(cur []string) {
			out = append(out, append([]string(nil), cur...))
			if len(cur) == max {
				return
			}
			for _, a := range alphabet {
				rec(append(cur, a))
			}
		}
		rec(nil)
		return out
	}
	type variant struct {
		field string
		lists [][]string
	}
	for _, v := range []variant{
		{"actions", gen([]string{"ACTION_FEE", "ACTION_SWAP"}, 4)},
		{"protocols", gen([]string{"PROTOCOL_IBC", "PROTOCOL_CCTP", "PROTOCOL_HYPERLANE"}, 3)},
	} {
		for _, ids := range v.lists {
			bz, _ := json.Marshal(ids)
			actions, protocols := "[]", "[]"
			if v.field == "actions" {
				actions = string(bz)
			} else {
				protocols = string(bz)
			}
			doc := []byte(fmt.Sprintf(`{"adapter_genesis":{"params":{"max_passthrough_payload_size":0}},"dispatcher_genesis":{"dispatched_amounts":[],"dispatched_counts":[]},"forwarder_genesis":{"paused_protocol_ids":%s,"paused_cross_chain_ids":[]},"executor_genesis":{"paused_action_ids":%s}}`, protocols, actions))
			e.Res.Eval()
			if err := validateOrbiter(w, doc); err != nil {
				e.Res.Sig("id-list|%s|n=%d|refused", v.field, len(ids))
				continue
			}
			ctx, _ := l.Base.CacheContext()
			wipeOrbiterStore(w, ctx)
			wtn := map[string]any{"field": v.field, "ids": ids}
			if err := initOrbiter(w, ctx, doc); err != nil {
				e.Res.Violate(fw.Violation{Property: "C17", Kind: "validated-genesis-fails-to-initialise", Tags: map[string]string{"class": genesisFailClass(err.Error())},
					Detail: fmt.Sprintf("paused %s %v pass ValidateGenesis but InitGenesis fails: %s", v.field, ids, trunc(err.Error(), 200)), Witness: wtn})
				continue
			}
			want, _ := genesisEntries(w, doc)
			got, _ := genesisEntries(w, exportOrbiter(w, ctx))
			if miss, extra := setDiff(want, got); len(miss)+len(extra) > 0 {
				e.Res.Violate(fw.Violation{Property: "C17", Kind: "genesis-entries-dropped", Tags: map[string]string{"class": "id-list"},
					Detail: fmt.Sprintf("paused %s %v: state lacks %v, has in addition %v", v.field, ids, miss, extra), Witness: wtn})
				continue
			}
			e.Res.Sig("id-list|%s|n=%d|initialised", v.field, len(ids))
		}
	}
}
