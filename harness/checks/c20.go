package checks

import (
	"encoding/json"
	"fmt"
	"math/big"
	"regexp"
	"strconv"
	"strings"

	forwardingtypes "github.com/noble-assets/orbiter/v2/types/controller/forwarding"
	"github.com/noble-assets/orbiter/v2/types/core"

	"orbverif/fw"
	"orbverif/run"
	"orbverif/spec"
	"orbverif/world"
)

var canonicalDomain = regexp.MustCompile(`^(0|[1-9][0-9]*)$`)

// isCanonicalDomain is the model's rule for CCTP/Hyperlane counterparties.
func isCanonicalDomain(s string) bool {
	if !canonicalDomain.MatchString(s) || len(s) > 10 {
		return false
	}
	v, err := strconv.ParseUint(s, 10, 64)
	return err == nil && v <= 4294967295
}

// counterpartyGrammar is the identifier grammar of DESIGN.md section 5.C20.
func counterpartyGrammar(e *fw.Env, n int) []string {
	base := []string{
		"", "0", "1", "5", "05", "005", "+5", "-5", "-0", "+0", " 5", "5 ", "5\n", "5\x00", "٥", "５", "0x5", "0b101", "5e0", "5.0", "1_0",
		"4294967295", "4294967296", "04294967295", "9223372036854775807", "9223372036854775808", "18446744073709551615", "99999999999", "-1", "-4294967295",
		"channel-0", "channel-1", "channel-01", "channel-18446744073709551615", "channel-18446744073709551616", "channel--1", "channel-", "channel", "Channel-0", "channel-0 ",
		"noble", "noble:1", ":", "2:5", "a:b:c", "x", strings.Repeat("1", 32), strings.Repeat("1", 33), strings.Repeat("n", 32), strings.Repeat("n", 33),
		"1:", ":1", "4:noble", "\x00", "a\x00b", "💥",
	}
	for i := 0; i < n; i++ {
		switch e.R.Intn(6) {
		case 0:
			base = append(base, fmt.Sprintf("%d", e.R.Uint32()))
		case 1:
			base = append(base, fmt.Sprintf("%0*d", 1+e.R.Intn(12), e.R.Intn(100000)))
		case 2:
			base = append(base, fmt.Sprintf("channel-%d", e.R.Intn(1000)))
		case 3:
			b := make([]byte, 1+e.R.Intn(34))
			for k := range b {
				b[k] = "0123456789+-: _.xnc"[e.R.Intn(19)]
			}
			base = append(base, string(b))
		case 4:
			base = append(base, fmt.Sprintf("%s%d", []string{"+", "-", "0", "00", " "}[e.R.Intn(5)], e.R.Intn(50)))
		default:
			base = append(base, fmt.Sprintf("%d", uint64(e.R.Uint32())+uint64(e.R.Intn(3))*4294967296))
		}
	}
	return base
}

// CheckC20 checks identifier canonicity directly and behaviourally.
func CheckC20(e *fw.Env, l *Lab) {
	w := l.W
	protos := []int32{-1, 0, 1, 2, 3, 4, 5, 99, 2147483647}
	strs := counterpartyGrammar(e, e.N(20000, 2000000)/len(protos))
	textOf := map[string]string{} // ID text -> pair
	accepted := map[int32][]string{}
	for _, p := range protos {
		for si, s := range strs {
			if !e.Mine(si) && si >= 60 {
				continue
			}
			e.Res.Eval()
			id, err := core.NewCrossChainID(core.ProtocolID(p), s)
			if err != nil {
				// refused: nothing more to check, except that valid canonical forms are accepted
				if (p == 2 || p == 3) && isCanonicalDomain(s) {
					e.Res.Violate(fw.Violation{Property: "C20", Kind: "canonical-identifier-refused", Detail: fmt.Sprintf("(%d,%q): %v", p, s, err)})
				}
				continue
			}
			pair := fmt.Sprintf("%d|%q", p, s)
			if p < 1 || p > 4 {
				e.Res.Violate(fw.Violation{Property: "C20", Kind: "unsupported-protocol-accepted", Detail: pair})
				continue
			}
			if len(accepted[p]) < 4000 {
				accepted[p] = append(accepted[p], s)
			}
			// canonical form for CCTP / Hyperlane
			if (p == 2 || p == 3) && !isCanonicalDomain(s) {
				e.Res.Violate(fw.Violation{Property: "C20", Kind: "non-canonical-domain-accepted", Tags: map[string]string{"via": "NewCrossChainID"},
					Detail:  fmt.Sprintf("counterparty %q accepted for protocol %d although it is not the decimal form of a 32-bit domain", s, p),
					Witness: map[string]any{"protocol": p, "counterparty": s}})
			}
			// round trip
			text := id.ID()
			back, err := core.ParseCrossChainID(text)
			if err != nil || back.ProtocolId != id.ProtocolId || back.CounterpartyId != id.CounterpartyId {
				e.Res.Violate(fw.Violation{Property: "C20", Kind: "identifier-does-not-round-trip",
					Detail: fmt.Sprintf("%s -> %q -> %v (%v)", pair, text, back, err), Witness: map[string]any{"protocol": p, "counterparty": s}})
			}
			// injectivity
			if prev, ok := textOf[text]; ok && prev != pair {
				e.Res.Violate(fw.Violation{Property: "C20", Kind: "two-pairs-one-text", Detail: fmt.Sprintf("%s and %s both render as %q", prev, pair, text)})
			}
			textOf[text] = pair
			if len(s) > 32 {
				e.Res.Violate(fw.Violation{Property: "C20", Kind: "overlong-counterparty-accepted", Detail: pair})
			}
			e.Res.Sig("direct|%d|%s", p, cpClass(s))
		}
	}
	// parse side: arbitrary texts either fail or round-trip
	for si, s := range strs {
		if !e.Mine(si) {
			continue
		}
		for _, pre := range []string{"2:", "3:", "1:", "4:", "02:", "+2:", " 2:", "2 :", "-2:", "5:", "0:", "2147483648:", ""} {
			text := pre + s
			e.Res.Eval()
			id, err := core.ParseCrossChainID(text)
			if err != nil {
				continue
			}
			if id.ID() != text {
				// The statement demands pair -> text -> pair and injectivity of pair -> text; a second
				// text for the protocol part ("02:5", "+2:5") is only counted: ParseCrossChainID is
				// fed exclusively with texts produced by ID() (index keys), never with user input.
				e.Res.Count("lenient-protocol-prefix-parsed")
				back, err := core.ParseCrossChainID(id.ID())
				if err != nil || back != id {
					e.Res.Violate(fw.Violation{Property: "C20", Kind: "identifier-does-not-round-trip", Detail: fmt.Sprintf("%q", text)})
				}
			}
			e.Res.Sig("parse|%s|%s", pre, cpClass(s))
		}
	}
	// attribute strings: CounterpartyID() of the attributes is the canonical decimal form
	for i := 0; i < 2000; i++ {
		d := e.R.Uint32()
		if i < 6 {
			d = []uint32{0, 1, 5, 10, 4294967295, 2147483648}[i]
		}
		ca := (&forwardingtypes.CCTPAttributes{DestinationDomain: d}).CounterpartyID()
		ha := (&forwardingtypes.HypAttributes{DestinationDomain: d}).CounterpartyID()
		want := strconv.FormatUint(uint64(d), 10)
		e.Res.Eval()
		if ca != want || ha != want {
			e.Res.Violate(fw.Violation{Property: "C20", Kind: "attribute-counterparty-not-canonical", Detail: fmt.Sprintf("domain %d: cctp %q hyperlane %q", d, ca, ha)})
		}
	}

	// behavioural: every string the message server accepts for CCTP / Hyperlane must cover the
	// transfers to the domain it denotes.
	type probe struct {
		proto int32
		dest  Dest
		dom   uint32
	}
	var probes []probe
	for _, d := range l.probeSet() {
		if d.Proto == 2 || d.Proto == 3 {
			v, _ := strconv.ParseUint(d.Cp, 10, 32)
			probes = append(probes, probe{d.Proto, d, uint32(v)})
		}
	}
	spellings := func(dom uint32) []string {
		n := strconv.FormatUint(uint64(dom), 10)
		return []string{n, "0" + n, "00" + n, "+" + n, " " + n, n + " ", "-" + n, "0x" + strconv.FormatUint(uint64(dom), 16), n + ".0", n + "e0",
			strconv.FormatUint(uint64(dom)+4294967296, 10), "+0" + n}
	}
	nb := 0
	for pi, pr := range probes {
		sp := spellings(pr.dom)
		for si := 0; si < 2*len(sp); si++ {
			if !e.Mine(pi*31 + si) {
				continue
			}
			s := sp[si%len(sp)]
			type combo struct {
				ids   []string
				prior int
			}
			combos := []combo{{[]string{s}, e.R.Intn(3)}}
			if si >= len(sp) {
				// the same spelling inside a batch, after / before a well-formed id of another domain
				shapes := [][]string{{"77777", s}, {s, "77777"}, {"77777", s, "88888"}}
				combos = []combo{{shapes[e.R.Intn(3)], e.R.Intn(3)}}
				if s == pr.dest.Cp {
					// the canonical spelling: every batch shape in every prior state
					combos = nil
					for _, sh := range shapes {
						for p := 0; p < 3; p++ {
							combos = append(combos, combo{sh, p})
						}
					}
				}
			}
			for _, cb := range combos {
				ids := cb.ids
				ctx, _ := l.Base.CacheContext()
				// prior state: another identifier of the batch is paused already; the whole protocol
				// is paused while the message is sent and resumed afterwards; nothing
				prior := ""
				switch cb.prior {
				case 0:
					if len(ids) > 1 && PauseCrossChains(w, ctx, ProtoName[pr.proto], []string{"77777"}) == nil {
						prior = "77777 paused before"
					}
				case 1:
					if PauseProtocol(w, ctx, ProtoName[pr.proto]) == nil {
						prior = "protocol paused during the message"
					}
				}
				err := PauseCrossChains(w, ctx, ProtoName[pr.proto], ids)
				if prior == "protocol paused during the message" {
					UnpauseProtocol(w, ctx, ProtoName[pr.proto])
				}
				e.Res.Eval()
				nb++
				if err != nil {
					// (a batch that names an identifier paused already is refused for that reason)
					if s == pr.dest.Cp && prior != "77777 paused before" {
						e.Res.Violate(fw.Violation{Property: "C20", Kind: "canonical-identifier-refused", Detail: fmt.Sprintf("pause of (%d,%q) refused: %v", pr.proto, s, err)})
					}
					e.Res.Sig("behav|%d|%s|refused", pr.proto, cpClass(s))
					continue
				}
				// accepted: the transfer to the domain must now be refused
				t := l.NewTransfer(e.R, pr.dest.Denom, big.NewInt(1_000_000), &spec.Spec{Route: pr.dest.Make(e.R)})
				o := run.Do(w, ctx, t, run.Mode{Kind: "H"})
				Universal(e.Res, o)
				wtn := map[string]any{"protocol": ProtoName[pr.proto], "paused_counterparty": s, "batch": ids, "prior_state": prior, "transfer_domain": pr.dom, "outcome": o.Res.String()}
				if o.Success() {
					e.Res.Violate(fw.Violation{Property: "C20", Kind: "accepted-identifier-does-not-cover-its-domain", Tags: map[string]string{"spelling": cpClass(s)},
						Detail:  fmt.Sprintf("PauseCrossChains(%s, %q) succeeded, yet a transfer to domain %d is executed", ProtoName[pr.proto], ids, pr.dom),
						Witness: wtn})
				} else if s != pr.dest.Cp {
					// a second accepted spelling of the same destination
					e.Res.Violate(fw.Violation{Property: "C20", Kind: "two-accepted-identifiers-one-destination", Tags: map[string]string{"spelling": cpClass(s)},
						Detail: fmt.Sprintf("%q and %q both pause domain %d", s, pr.dest.Cp, pr.dom), Witness: wtn})
				}
				e.Res.Sig("behav|%d|%s|batch=%d|prior=%d|accepted|%s", pr.proto, cpClass(s), len(ids), cb.prior, outcomeClass(o))
			}
		}
	}
	e.Res.CountN("behavioural-probes", nb)
	genesisIdentifiersC20(e, l)
	if e.Shard == 0 {
		e.Res.Sample(map[string]any{"direct_strings": strs[:12], "behavioural_spellings_of_domain_5": spellings(5)})
	}
	_ = world.USDC
}

func cpClass(s string) string {
	switch {
	case s == "":
		return "empty"
	case isCanonicalDomain(s):
		return "canonical-domain"
	case regexp.MustCompile(`^[0-9]+$`).MatchString(s) && strings.HasPrefix(s, "0"):
		return "leading-zero"
	case regexp.MustCompile(`^[0-9]+$`).MatchString(s):
		return "digits-out-of-range"
	case regexp.MustCompile(`^[+][0-9]+$`).MatchString(s):
		return "plus-sign"
	case regexp.MustCompile(`^-[0-9]+$`).MatchString(s):
		return "minus-sign"
	case regexp.MustCompile(`^channel-[0-9]+$`).MatchString(s):
		return "channel-n"
	case strings.Contains(s, ":"):
		return "with-separator"
	case strings.ContainsAny(s, " \n\x00"):
		return "with-space-or-nul"
	case len(s) > 32:
		return "overlong"
	}
	return "other"
}

// genesisIdentifiersC20: every position of the genesis document that carries a cross-chain id
// accepts only the canonical form for CCTP / Hyperlane.
func genesisIdentifiersC20(e *fw.Env, l *Lab) {
	positions := []string{"paused", "amount-source", "amount-destination", "count-source", "count-destination"}
	spell := []string{"7", "007", "+7", "-7", " 7", "7 ", "0x7", "7.0", "4294967296", "4294967303", "channel-7", "", "4294967295", "0"}
	i := 0
	for _, pos := range positions {
		for _, proto := range []string{"PROTOCOL_CCTP", "PROTOCOL_HYPERLANE"} {
			for _, s := range spell {
				i++
				if !e.Mine(i) {
					continue
				}
				sj, _ := json.Marshal(s)
				id := fmt.Sprintf(`{"protocol_id":"%s","counterparty_id":%s}`, proto, sj)
				ok := `{"protocol_id":"PROTOCOL_IBC","counterparty_id":"channel-0"}`
				okd := `{"protocol_id":"PROTOCOL_INTERNAL","counterparty_id":"noble"}`
				paused, amounts, counts := "", "", ""
				switch pos {
				case "paused":
					paused = id
				case "amount-source":
					amounts = fmt.Sprintf(`{"source_id":%s,"destination_id":%s,"denom":"uusdc","amount_dispatched":{"incoming":"5","outgoing":"4"}}`, id, okd)
				case "amount-destination":
					amounts = fmt.Sprintf(`{"source_id":%s,"destination_id":%s,"denom":"uusdc","amount_dispatched":{"incoming":"5","outgoing":"4"}}`, ok, id)
				case "count-source":
					counts = fmt.Sprintf(`{"source_id":%s,"destination_id":%s,"count":"3"}`, id, okd)
				case "count-destination":
					counts = fmt.Sprintf(`{"source_id":%s,"destination_id":%s,"count":"3"}`, ok, id)
				}
				doc := fmt.Sprintf(`{"adapter_genesis":{"params":{"max_passthrough_payload_size":0}},"dispatcher_genesis":{"dispatched_amounts":[%s],"dispatched_counts":[%s]},"forwarder_genesis":{"paused_protocol_ids":[],"paused_cross_chain_ids":[%s]},"executor_genesis":{"paused_action_ids":[]}}`, amounts, counts, paused)
				e.Res.Eval()
				err := validateOrbiter(l.W, []byte(doc))
				canon := isCanonicalDomain(s)
				switch {
				case err == nil && !canon:
					e.Res.Violate(fw.Violation{Property: "C20", Kind: "non-canonical-domain-accepted", Tags: map[string]string{"via": "genesis:" + pos},
						Detail:  fmt.Sprintf("genesis validation accepts counterparty %q for %s at %s", s, proto, pos),
						Witness: map[string]any{"doc": doc}})
				case err != nil && canon:
					e.Res.Violate(fw.Violation{Property: "C20", Kind: "canonical-identifier-refused", Tags: map[string]string{"via": "genesis:" + pos},
						Detail: fmt.Sprintf("genesis validation refuses counterparty %q for %s at %s: %v", s, proto, pos, err), Witness: map[string]any{"doc": doc}})
				}
				e.Res.Sig("genesis-id|%s|%s|%s|accepted=%v", pos, proto, cpClass(s), err == nil)
			}
		}
	}
}
