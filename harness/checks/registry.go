package checks

import (
	"orbverif/fw"
	"orbverif/world"
)

// Def describes one property check.
type Def struct {
	ID          string
	Level       string
	Rule        string
	Assumptions []string
	MinSigs     int // fewer distinct non-trivial signatures than this => inconclusive
	// Exhaustive is set when the run enumerates a finite space completely (what space: see Rule).
	Exhaustive bool
	Run        func(e *fw.Env)
	// MaxShards caps the number of worker processes (0 = default).
	MaxShards int
}

// Registry lists all checks.
var Registry = map[string]*Def{}

func register(d *Def) { Registry[d.ID] = d }

func withLab(cfg world.Config, f func(e *fw.Env, l *Lab)) func(e *fw.Env) {
	return func(e *fw.Env) {
		l, err := NewLab(cfg)
		if err != nil {
			e.Res.Fatal("world construction failed: %v", err)
			return
		}
		e.Res.Notes["calibrated_destinations"] = itoa(len(l.Dests))
		if len(l.Rejected) > 0 {
			e.Res.Notes["rejected_templates"] = join(l.Rejected)
		}
		f(e, l)
	}
}

var commonAssumptions = []string{
	"the repository's simapp wiring (simapp/app.go, simapp/ibc.go, app.yaml) is the deployment being judged",
	"third-party modules (bank, ICS-20, IBC core over 09-localhost, blockibc, fiattokenfactory, CCTP, Hyperlane) behave as their pinned versions do; their success on a destination template is calibrated, not predicted",
	"the harness plays the counterparty chain by storing packet commitments on the peer channel end (the power IBC's threat model gives a counterparty)",
	"verdict = held on the executions listed here; not a proof",
}

func init() {
	register(&Def{
		ID: "C07", Level: "exploration", MinSigs: 20,
		Rule:        "(1) twin chains: per shard one history of 60 (thorough 500) blocks WITHOUT any packet addressed to the orbiter account - forged incoming packets to 18 non-orbiter receivers incl. near misses of the orbiter address, memos containing valid and malformed orbiter payloads, PFM-style and 32 KiB memos, random bytes, hostile ICS-20 data, foreign/returning denoms; outgoing MsgTransfer with hostile memos; MsgRecvPacket on the peer end, MsgAcknowledgement and MsgTimeout of those packets; orbiter pause/unpause messages - is executed on the real chain and on a chain whose IBC router holds blockibc(transfer) only: equal AppHash after every block, equal tx code, data, acknowledgement bytes, ordered events, gas. (2) per packet on two branches of one state: entrypoint(transfer) vs transfer alone for arbitrary bytes, bit flips, hostile data and arbitrary port/channel identifiers under random orbiter pause/parameter/dust states: equal acknowledgement bytes, events, digest of all 13 stores. (3) the same around a stub application that answers nil (asynchronous acknowledgement), success, error or aborts. (4) every other callback - OnChanOpenInit/Try/Ack/Confirm, OnChanCloseInit/Confirm, OnAcknowledgementPacket, OnTimeoutPacket, SendPacket, WriteAcknowledgement, GetAppVersion - with generated arguments (valid and hostile ports, channels, versions, capabilities, packets incl. ones sent by or addressed to the orbiter account, acknowledgement bytes) through middleware(recording stub) vs the stub: identical result, exactly one call with identical arguments at the wrapped side, identical events, gas and store digests; and OnAcknowledgementPacket / OnTimeoutPacket through entrypoint(transfer) vs transfer (real refunds from the escrow): identical error, events, store digests. distinct = acknowledgement classes seen on the twin, (envelope class, ack class) of the per-packet part, (callback, outcome class, argument class)",
		Assumptions: append([]string{"channel-handshake callbacks are exercised by the handshakes the world performs and, with generated arguments, through a recording stub application (the ICS-20 application itself refuses most generated handshakes)", "a packet on which the wrapped ICS-20 application itself panics (without the middleware) is not attributed to the middleware"}, commonAssumptions...),
		Run:         withLab(world.Config{}, CheckC07),
	})
	register(&Def{
		ID: "C06", Level: "exploration", MinSigs: 25,
		Rule:        "an alternative keeper over the same stores registers the real fee controller and a test controller under ACTION_SWAP that records the coin it is handed, really swaps it through the bank against a pool account at a PRNG-chosen rate and sets destination amount and denom (second configuration: only the swap controller registered); PRNG-drawn action orders [], [fee], [swap], [fee,swap], [swap,fee], [swap,fee,swap], [fee,fee], [swap,swap] x amounts x rates x routes chosen for the FINAL denomination; the model folds the list: the swap controller must have seen exactly the running coin, fee credits must be floor on the running amount in the running denomination, the recorded bridge request must carry the last action's output coin, statistics get one entry (same denom) or two (changed denom); repeated identifiers and actions without controller must be refused. distinct = (order, registry configuration, route, denom changed?, rate)",
		Assumptions: append([]string{"only two action identifiers exist in the enum, so 'any set of controllers' is the subsets of {fee, swap}"}, commonAssumptions...),
		Run:         withLab(world.Config{}, CheckC06),
	})
	register(&Def{
		ID: "C03", Level: "fault_enumeration", MinSigs: 100, Exhaustive: true,
		Rule:        "payload shapes = {CCTP, CCTP with caller, Hyperlane, internal} x {no fee, 1 fee, 5 fees} x {dust on the orbiter account, none}; for each shape a fault-free run on the alternative stack counts the calls at every injection site (bank SendCoins per fee, module-to-module sweep, CCTP DepositForBurn / WithCaller, warp Token and RemoteTransfer, bank Msg/Send, EventManager.Emit per event), then ONE run per (site, k-th call) - complete enumeration of single faults - plus the wrapped application returning an error acknowledgement before and after doing its work (thorough: ordered pairs of sites), each through the bare middleware (mode C) and through the real core MsgRecvPacket handler with the alternative stack installed in the IBC router (mode H); oracle: the wrapper recorded that the fault fired => acknowledgement present and not a success, and ledger, supply, statistics and orbiter store digest unchanged. Natural failures on the native wiring: blacklisted fee/internal recipient, paused token factory, burn limit, domain without messenger, unenrolled router, wrong-denom token, blocked recipient, insufficient escrow, non-burnable denom, gas paymaster without funds. A fault armed but not reached is inconclusive. Crash points: on the native wiring every shape is first delivered with a gas meter that records the cumulative gas after every consumption (every store read/write of the receive path, ~220 distinct points per shape), then re-delivered once per point k with a gas limit one unit below it (quick: every 6th point, thorough: all), so that the node's own out-of-gas abort strikes at exactly that point: the delivery must abort or be refused, a success acknowledgement is a violation; after every aborted delivery the same packet with unlimited gas on the same state must reproduce the fault-free acknowledgement, events, ledger delta and statistics delta (nothing of an aborted delivery survives in process memory). distinct = (shape, fault, mode, outcome) and (shape, outcome class, decile of the cut point)",
		Assumptions: append([]string{"faults are errors returned by dependencies, not crashes of the node; store-level write failures cannot be injected without touching the SDK", "exhaustive refers to single faults over the listed shapes and sites"}, commonAssumptions...),
		Run:         withLab(world.Config{}, CheckC03),
	})
	register(&Def{
		ID: "C05", Level: "exploration", MinSigs: 40,
		Rule:        "PRNG-drawn successful transfers over all three routes with every attribute varied (CCTP: domain, mint recipient, with/without caller; Hyperlane: token, domain, recipient, custom hook none/noop/merkle, gas limit, max fee denom/amount, metadata; internal: recipient) x fee lists, executed (a) on an alternative keeper over the same stores whose bridge dependencies are wrapped by recorders: exactly one bridge call, of the route named by the protocol id, every request field equal to the payload field / post-action coin / orbiter address; (b) on the native wiring: the bridges' own typed events (DepositForBurn, EventSendRemoteTransfer, bank credit) must carry the same values. Complete matrix of (protocol id incl. numeric and out-of-range) x (attribute type) and action ids without controller: only matching pairs are executed. ReplaceDepositForBurn: recorded CCTP request = message fields with From = orbiter (random and real messages); a real deposit replaced with a harness-signed attestation succeeds on both wirings and CCTP's event carries the new values. distinct = (bridge site, route template, fee class) and matrix cells",
		Assumptions: append([]string{"the alternative keeper duplicates the wiring of depinject.go (60 lines); the gap is closed by running every successful case on the native wiring too and requiring the same outcome"}, commonAssumptions...),
		Run:         withLab(world.Config{}, CheckC05),
	})
	register(&Def{
		ID: "C17", Level: "exploration", MinSigs: 30,
		Rule:        "at checkpoints of mixed histories (transfers over 4 channels, pauses of protocols/cross-chains/actions, parameter updates): ExportGenesis -> ValidateGenesis -> wipe the orbiter store on a branch -> InitGenesis (recover()) -> ExportGenesis must reproduce the same document and the same raw store (indexes included), and a fixed probe set (every calibrated destination, with/without fee, passthrough at limit+-1) must give identical acknowledgements, ledger and statistics deltas on the original and the re-imported state; for some checkpoints additionally a fresh chain is initialised by InitChain with the exported genesis and compared the same way. Generated documents = every single-point mutation of an exported genesis (delete, null, repeated/reversed/appended list elements, boundary and hostile identifiers, NUL/separator characters, integer extremes): accepted by ValidateGenesis => InitGenesis succeeds. distinct = checkpoint shapes and (mutation class, outcome)",
		Assumptions: commonAssumptions,
		Run:         withLab(world.Config{Channels: 4}, CheckC17),
	})
	register(&Def{
		ID: "C16", Level: "exploration", MinSigs: 40,
		Rule:        "systematic: denomination grammar (native, one-hop, multi-hop incl. a genuine two-hop voucher whose ibc/ denom really sits in the escrow, other port/channel prefixes, ibc/ hashes, empty segments, leading/trailing/double slashes, factory-style natives, invalid characters, wrong case) x every source end (2 channel pairs) x 14 amount encodings, each through the bare middleware (mode C) and the real core handler (mode H), plus PRNG compositions of path segments; oracle: accepted => the packet denom is <source port>/<source channel>/<native base>, and the coin ICS-20 released from escrow (ledger) = the coin credited to the internal recipient = the coin recorded in the statistics (denom and amount); canonical returning natives must be accepted. distinct = (source end, denom class, amount class, outcomes in both modes)",
		Assumptions: commonAssumptions,
		Run:         withLab(world.Config{}, CheckC16),
	})
	register(&Def{
		ID: "C20", Level: "exploration", MinSigs: 40,
		Rule:        "direct: protocols {-1,0,1,2,3,4,5,99,2^31-1} x a grammar of counterparty strings (signs, leading zeros, 2^32-1, 2^32, 2^63, >int64, Unicode digits, spaces/NUL, channel-N forms, separators inside, lengths 0,1,32,33, random) through NewCrossChainID/ID/ParseCrossChainID: accepted => round trip, injective text, canonical decimal 32-bit domain for CCTP/Hyperlane, length <= 32; every parsable text re-renders to itself; CounterpartyID() of the attributes = canonical decimal. Behavioural: for every calibrated CCTP/Hyperlane domain, 12 spellings of the domain are sent through the real PauseCrossChains message; every accepted spelling must make the probe transfer to that domain be refused, and only one spelling may be accepted. distinct = (protocol, string class) and behavioural (protocol, spelling class, accepted?, outcome)",
		Assumptions: commonAssumptions,
		Run:         withLab(world.Config{}, CheckC20),
	})
	register(&Def{
		ID: "C19", Level: "exploration", MinSigs: 10,
		Rule:        "per shard one history of 60 (thorough 400) blocks is recorded as raw transaction bytes + counterparty packet commitments: orbiter packets carrying the mutated-memo corpus of C14/C15 (error acknowledgements of every class), hostile attributes and packet data, successful transfers, admin messages (valid/invalid/unauthorized), deposits; it is replayed on a reference world, 2 sequential fresh worlds, 3-4 worlds on parallel goroutines and 2-3 fresh processes (fresh map seeds, ASLR); every replay must equal the reference byte for byte in acknowledgement bytes, tx code/codespace/data, ordered events, gas, every block's AppHash, the exported orbiter state, the bank store digest and the decoded map-valued queries. The race-detector build runs the parallel part (see race_reports). non-trivial = every replay comparison; distinct = error-acknowledgement text classes (digits stripped) present in the stream and replay instances",
		Assumptions: append([]string{"nondeterminism that needs a different machine, architecture or Go version is out of reach", "tx logs (not committed, not in the statement) are compared separately and only counted"}, commonAssumptions...),
		Run:         func(e *fw.Env) { CheckC19(e, nil) },
	})
	register(&Def{
		ID: "C15", Level: "exploration", MinSigs: 300,
		Rule:        "(1) PRNG-drawn payloads (3 forwarding types x fee lists x passthrough 0..4 KiB) are built through the module's public constructors, marshalled, parsed back: proto-equal payload, usable attributes, and equal to the parse of the harness' independently hand-rendered memo of the same spec; (2) every single-point mutation of every template memo goes through the parser entry point with an acceptance predicate computed from the mutation alone (certainly-malformed, enum numbers/names, type URLs: two-sided; other mutations: either) and a purity check (same memo parsed three times on two parser instances interleaved with other memos: identical result or identical error text); (3) 8 goroutines parse a shared corpus on shared and private parser instances and must reproduce the sequential results. distinct = (template, site, mutation kind, expectation, accepted) tuples and round-trip classes",
		Assumptions: append([]string{"a protocol identifier is 'supported' at parser level when it is a named, non-zero enum value (IBC included; the missing controller is C05's subject); mismatched (id, attribute type) pairs are C05's subject", "duplicate keys and other mutations without a fixed meaning are held to purity only"}, commonAssumptions...),
		Run:         withLab(world.Config{}, CheckC15),
	})
	register(&Def{
		ID: "C13", Level: "exploration", MinSigs: 40,
		Rule:        "ledgers of 0..~150 entries are grown by C12's mixed histories (entries are updated many times, not only inserted) over 4 source channels; at checkpoints the exported statistics are the ground truth and, for every protocol filter x {amounts, counts} x {by source, by destination}: next-key walks with limits 1,2,3,n-1,n/2,random,n,n+1,1000 forward and reverse, offset walks, count_total, the unpaginated listing - each must visit exactly the matching entries once (multiset equality, reverse = mirror) - plus direct lookups of every present key and of absent neighbours (other denom, other channel, other counterparty). distinct = (listing, size bucket, limit relation, direction) and lookup classes",
		Assumptions: append([]string{"ground truth = exported genesis, itself tied to the observed transfers by C12's shadow ledger"}, commonAssumptions...),
		Run:         withLab(world.Config{Channels: 4}, CheckC13),
	})
	register(&Def{
		ID: "C12", Level: "exploration", MinSigs: 30,
		Rule:        "mixed histories of 200-500 (thorough: up to 2000) operations on one accumulating state: successful and refused orbiter transfers over 4 source channels x calibrated and hostile destinations x 3 denoms x fee settings, non-orbiter receives, deposits, pause/unpause messages; a shadow ledger is folded only from ledger-observed successful transfers (incoming = packet amount, outgoing = model A - fees) and compared as whole maps with the exported statistics every 5 operations; per operation the statistics delta must be exactly the model entry on success and empty otherwise; in - out = fees per route; plus a history in real blocks (mode T) and a scenario that drives one route past 2^256. distinct = (source channel, denom, destination, fee?) routes that accumulated",
		Assumptions: append([]string{"only the fee action exists on the native wiring, so denomination-changing histories (two entries per transfer) are covered by C06's alternative keeper, not here"}, commonAssumptions...),
		Run:         withLab(world.Config{Channels: 4}, CheckC12),
	})
	register(&Def{
		ID: "C18", Level: "exploration", MinSigs: 20,
		Rule:        "walks of 10 UpdateParams messages (values 0,1,2,255,256,4095,19999,20000,30000,2^31,2^32-1, random; 1 in 6 by an unauthorized signer) from the default genesis, and fresh chains whose genesis sets the parameter; after every message the Params query and the exported genesis must equal the model (last value set by genesis or authority) and probes with passthrough lengths {0,1,L-1,L,L+1,2L,L+100,20000} on calibrated destinations through the real core handler must be accepted iff len <= L; refused probes leave no credit. distinct = (limit bucket, within/over, length class, outcome)",
		Assumptions: append([]string{"ICS-20 caps the memo at 32 KiB, so limits above ~20000 bytes are observable only as 'never refused for size'"}, commonAssumptions...),
		Run:         withLab(world.Config{}, CheckC18),
	})
	register(&Def{
		ID: "C10", Level: "exploration", MinSigs: 60,
		Rule:        "the Msg RPC surface is enumerated at run time from the protobuf registry (every method of every service named Msg in a noble.orbiter.* package; signer field from cosmos.msg.v1.signer), so new RPCs are included; each RPC x 13 impostor signer classes (users, module accounts, empty, garbage, other HRP, padded/truncated/hex authority; upper-case authority = EITHER) x {hand-written valid body executed in the state where it is valid, reflection-filled random bodies} through the application's MsgServiceRouter: must return an error, leave the digest of all 13 KV stores unchanged and emit no event; the valid bodies signed by the authority must succeed (incl. ReplaceDepositForBurn with a real deposit and a harness-signed attestation); plus impostor- and authority-signed transactions through FinalizeBlock. distinct = (rpc, signer class, body kind, outcome)",
		Assumptions: append([]string{"for an RPC added later only random bodies exist, so 'succeeds for the authority' is checked for the 8 known message types only"}, commonAssumptions...),
		Run:         withLab(world.Config{}, CheckC10),
	})
	register(&Def{
		ID: "C08", Level: "exploration", MinSigs: 40,
		Rule:        "random walks (50-150 messages) over PauseProtocol/UnpauseProtocol/PauseCrossChains/UnpauseCrossChains with valid, redundant, malformed, unauthorized variants, batches of 0..101 ids with duplicates and already-paused members; after EVERY message the four forwarder queries (every page size), the point queries and the exported genesis are compared with the model sets, and a failed message must leave the orbiter store digest unchanged; every 6 messages one probe transfer per calibrated (protocol, counterparty) on a discarded branch: executed iff neither the protocol nor the pair is paused, refused probes leave no ledger/statistics effect. Mode H walks plus a mode T walk (each message in its own signed transaction). non-trivial = every message and probe; distinct = (message kind, expectation, reason, batch size) and (destination, paused?, outcome) tuples",
		Assumptions: append([]string{"an empty counterparty batch is treated as EITHER (the statement does not define it); the model resyncs from the queries", "counterparty ids in the walks are canonical or clearly invalid; non-canonical numeric spellings are C20's subject"}, commonAssumptions...),
		Run:         withLab(world.Config{}, CheckC08),
	})
	register(&Def{
		ID: "C09", Level: "exploration", MinSigs: 30,
		Rule:        "random walks over PauseAction/UnpauseAction (valid ids FEE and SWAP, invalid ids, redundant, unauthorized) interleaved with forwarder pause messages; after every message the executor queries and exported genesis are compared with the model; every 4 messages probes with and without the fee action on every calibrated destination: a payload containing the fee action is executed iff the action (and destination) is not paused, a refused probe moves no balance (in particular no fee), payloads without the action follow the forwarder model only. Mode H walks plus a mode T walk. distinct = (message kind, expectation, reason) and (destination, fee?, paused?, outcome)",
		Assumptions: commonAssumptions,
		Run:         withLab(world.Config{}, CheckC09),
	})
	register(&Def{
		ID: "C11", Level: "exploration", MinSigs: 30,
		Rule:        "metamorphic pairs: the same packet (same sequence, same bytes) is executed through the real core handler on two branches of one state - orbiter account empty vs after 1..4 real MsgSend deposits (transferred denom, other denoms, amounts 1 / equal to the transfer / random) - for PRNG-drawn routes (calibrated and hostile, incl. Hyperlane with the gas-paymaster hook), fee lists and amounts; oracle: byte-equal acknowledgement, equal ledger delta of all third accounts and supply, equal bridge events, equal statistics delta; deposit of the transferred denom ends on the dust collector, other denoms do not move. non-trivial = every pair; distinct = (route class, fee class, outcome, same-denom deposit?, number of deposits)",
		Assumptions: commonAssumptions,
		Run:         withLab(world.Config{}, CheckC11),
	})
	register(&Def{
		ID: "C04", Level: "exploration", MinSigs: 50,
		Rule:        "end-to-end: PRNG-drawn (amount 1..2^256-1, boundary-biased) x fee lists (valid, arbitrary incl. invalid recipients/bps/amount spellings, and boundary shapes: total==A, total==A-1, 6 entries, sum/ product overflow, repeated recipients) on calibrated destinations through the real core handler, plus a complete grid amount-edge x bps-edge x list length 1..6; oracle = big-integer model: verdict (must succeed / must refuse / either) and exact recipient credits + forwarded amount over the full ledger. Direct: the same generators against FeeAttributes.Validate and ComputeFeesToDistribute. non-trivial = every case with a two-sided verdict or an executed transfer; distinct = (destination, fee class, verdict, outcome, amount width) tuples",
		Assumptions: append([]string{"lexically odd spellings of a positive fixed amount and products A*bps >= 2^256 are EITHER refused or executed exactly (the statement fixes no outcome)"}, commonAssumptions...),
		Run:         withLab(world.Config{}, CheckC04),
	})
	register(&Def{
		ID: "C14", Level: "exploration", MinSigs: 500,
		Rule:        "systematic: every single-point mutation (delete, null, wrong type, empty, duplicate key both orders, unknown key, list append, enum/type-URL substitutions, deep nesting, long strings) at every node of every template memo (3 routes x fee shapes), whole-document and truncation cases; the same over the ICS-20 packet-data tree with hostile amounts/denoms/receivers/senders; PRNG: random bytes and bit flips, attribute extremes (nil integers, empty coins, hostile recipients); envelopes with arbitrary port/channel ids. Executed on the bare orbiter middleware (mode C) with a sample through the real core MsgRecvPacket handler (mode H). Oracle: recover() never fires, an acknowledgement is always returned, certainly-malformed payloads addressed to the orbiter yield an error acknowledgement. non-trivial = every executed input; distinct = distinct (template, site, mutation kind, outcome) tuples",
		Assumptions: append([]string{"out-of-gas panics of the SDK gas meter are not provoked (infinite gas meter)", "a payload is marked certainly-malformed only for mutation classes whose result cannot be a well-formed payload (see certainMalformed); other mutations are held to no-panic only"}, commonAssumptions...),
		Run:         withLab(world.Config{}, CheckC14),
	})
	register(&Def{
		ID: "C01", Level: "exploration", MinSigs: 20,
		Rule:        "cases = PRNG-drawn (receiver encoding x route incl. hostile recipients x fee list x amount x prior deposits/pauses/params) executed through the real core MsgRecvPacket handler (mode H) and the bare orbiter middleware (mode C) from a funded base state; a case is non-trivial when the receiver decodes to the orbiter account or the acknowledgement is a success; distinct = distinct (receiver class, route class, fee class, outcome, deposits?, paused?) tuples",
		Assumptions: commonAssumptions,
		Run:         withLab(world.Config{}, CheckC01),
	})
	register(&Def{
		ID: "C02", Level: "exploration", MinSigs: 20,
		Rule:        "cases = PRNG-drawn successful orbiter transfers (calibrated destination x fee list x boundary-biased amount 1..2^256-1 x prior deposits) through the real core MsgRecvPacket handler, a complete boundary grid (destination x amount edge x 5 fee shapes), and accumulating histories interleaved with deposits and non-orbiter receives; oracle = exact equality of the full-ledger delta (all accounts, all denoms, supply) with the model; non-trivial = success acknowledgement; distinct = (route template, fee class, amount width bucket, deposits?) tuples and grid cells",
		Assumptions: commonAssumptions,
		Run:         withLab(world.Config{}, CheckC02),
	})
}
