package checks

import (
	"crypto/sha256"
	"encoding/hex"
	"encoding/json"
	"fmt"
	"math/big"
	"math/rand"
	"os"
	"os/exec"
	"path/filepath"
	"regexp"
	"sort"
	"strconv"
	"strings"
	"sync"

	abci "github.com/cometbft/cometbft/abci/types"

	sdkmath "cosmossdk.io/math"
	sdk "github.com/cosmos/cosmos-sdk/types"
	banktypes "github.com/cosmos/cosmos-sdk/x/bank/types"

	orbiterkeeper "github.com/noble-assets/orbiter/v2/keeper"
	orbitertypes "github.com/noble-assets/orbiter/v2/types"
	adaptertypes "github.com/noble-assets/orbiter/v2/types/component/adapter"
	executortypes "github.com/noble-assets/orbiter/v2/types/component/executor"
	forwardertypes "github.com/noble-assets/orbiter/v2/types/component/forwarder"

	"orbverif/fw"
	"orbverif/run"
	"orbverif/spec"
	"orbverif/world"
)

// Forge is a packet commitment the hostile counterparty stores before a block.
type Forge struct {
	A    string `json:"a"`
	B    string `json:"b"`
	Seq  uint64 `json:"seq"`
	Data []byte `json:"data"`
}

// StreamBlock is one block of a recorded history.
type StreamBlock struct {
	Forges []Forge  `json:"forges,omitempty"`
	Txs    [][]byte `json:"txs"`
}

// Stream is a recorded history: the same bytes are fed to every replay.
type Stream struct {
	Channels int           `json:"channels"`
	Blocks   []StreamBlock `json:"blocks"`
}

// TxTrace is everything observable about one executed transaction.
type TxTrace struct {
	Code      uint32 `json:"code"`
	Codespace string `json:"codespace"`
	Data      string `json:"data"`
	GasUsed   int64  `json:"gas_used"`
	EventsB   []byte `json:"events"` // ordered, rendered (bytes: may hold invalid UTF-8)
	AckB      []byte `json:"ack"`
	LogB      []byte `json:"log"`
}

func (t TxTrace) Events() string { return string(t.EventsB) }
func (t TxTrace) Ack() string    { return string(t.AckB) }
func (t TxTrace) Log() string    { return string(t.LogB) }

// BlockTrace is the observable result of one block.
type BlockTrace struct {
	AppHash string    `json:"app_hash"`
	Txs     []TxTrace `json:"txs"`
}

// Trace is the result of replaying a stream.
type Trace struct {
	Blocks  []BlockTrace `json:"blocks"`
	Genesis string       `json:"orbiter_genesis"` // exported orbiter state at the end
	Bank    string       `json:"bank_digest"`
	Queries string       `json:"queries"` // decoded answers of the map-valued queries
}

// ibc-go formats a math.Int with %d in one of its ICS-20 validation errors ("amount must be
// strictly positive: got {824683936000}"), which prints the address of the big.Int. The text ends
// up in an event attribute of the transfer module (not in consensus state) on chains with and
// without the orbiter middleware alike; it is masked so that third-party noise is not attributed
// to the orbiter.
var pointerPrint = regexp.MustCompile(`got \{\d{6,}\}`)

func renderEvents(evs []abci.Event) string {
	var sb strings.Builder
	for _, e := range evs {
		sb.WriteString(e.Type)
		sb.WriteByte('{')
		for _, a := range e.Attributes {
			v := a.Value
			if strings.HasSuffix(a.Key, "error") {
				v = pointerPrint.ReplaceAllString(v, "got {ptr}")
			}
			sb.WriteString(a.Key + "=" + v + ";")
		}
		sb.WriteString("}\n")
	}
	return sb.String()
}

// Replay builds a fresh deterministic world and feeds it the stream.
func Replay(st *Stream) (*Trace, error) { return ReplayNoise(st, 0) }

// ReplayNoise is Replay on a node with local activity that is not part of the history: between
// blocks the node simulates transactions and runs handlers on discarded branches (what RPC
// clients make a node do) and answers queries. None of it may change what the blocks compute.
func ReplayNoise(st *Stream, noise int64) (*Trace, error) {
	l, err := NewLab(world.Config{Channels: st.Channels})
	if err != nil {
		return nil, err
	}
	return replayOn(l, st, noise)
}

// localNoise performs one node-local activity on committed state; everything is discarded.
func localNoise(w *world.World, r *rand.Rand) {
	defer func() { _ = recover() }()
	auth := w.Authority.String()
	var msg sdk.Msg
	switch r.Intn(7) {
	case 0:
		msg = &adaptertypes.MsgUpdateParams{Signer: auth, Params: adaptertypes.Params{MaxPassthroughPayloadSize: uint32(r.Intn(5000))}}
	case 1:
		msg = &forwardertypes.MsgPauseProtocol{Signer: auth, ProtocolId: ProtoName[int32(2+r.Intn(3))]}
	case 2:
		msg = &forwardertypes.MsgUnpauseProtocol{Signer: auth, ProtocolId: ProtoName[int32(2+r.Intn(3))]}
	case 3:
		msg = &executortypes.MsgPauseAction{Signer: auth, ActionId: "ACTION_FEE"}
	case 4:
		msg = &executortypes.MsgUnpauseAction{Signer: auth, ActionId: "ACTION_FEE"}
	case 5:
		msg = &forwardertypes.MsgPauseCrossChains{Signer: auth, ProtocolId: "PROTOCOL_CCTP", CounterpartyIds: []string{fmt.Sprint(r.Intn(6))}}
	default:
		msg = &forwardertypes.MsgUnpauseCrossChains{Signer: auth, ProtocolId: "PROTOCOL_CCTP", CounterpartyIds: []string{fmt.Sprint(r.Intn(6))}}
	}
	// a handler run on a branch that is thrown away
	branch, _ := w.Ctx().CacheContext()
	w.Handle(branch, msg)
	// the same as a simulated transaction
	if bz, err := w.SignTx([]sdk.Msg{msg}, 0, w.Authority); err == nil {
		_, _, _ = w.App.Simulate(bz)
	}
	// queries
	ctx := w.Ctx()
	_, _ = orbiterkeeper.NewQueryServer(w.App.OrbiterKeeper).ActionIDs(ctx, &orbitertypes.QueryActionIDsRequest{})
	_ = w.App.OrbiterKeeper.ExportGenesis(ctx)
}

func replayOn(l *Lab, st *Stream, noise int64) (*Trace, error) {
	w := l.W
	tr := &Trace{}
	var nr *rand.Rand
	if noise != 0 {
		nr = rand.New(rand.NewSource(noise))
	}
	for _, b := range st.Blocks {
		if nr != nil && nr.Intn(2) == 0 {
			localNoise(w, nr)
		}
		ctx := w.Ctx()
		for _, f := range b.Forges {
			w.ForgePacketSeq(ctx, world.ChannelPair{A: f.A, B: f.B}, f.Data, f.Seq)
		}
		res, err := w.Block(b.Txs)
		if err != nil {
			return nil, err
		}
		bt := BlockTrace{AppHash: hex.EncodeToString(res.AppHash)}
		for _, r := range res.TxResults {
			ack, _ := world.AckFromEvents(r.Events)
			bt.Txs = append(bt.Txs, TxTrace{Code: r.Code, Codespace: r.Codespace, Data: hex.EncodeToString(r.Data),
				GasUsed: r.GasUsed, EventsB: []byte(renderEvents(r.Events)), AckB: ack, LogB: []byte(r.Log)})
		}
		tr.Blocks = append(tr.Blocks, bt)
	}
	ctx := w.Ctx()
	tr.Genesis = string(w.Cdc.MustMarshalJSON(w.App.OrbiterKeeper.ExportGenesis(ctx)))
	dig := w.StoreDigest(ctx)
	tr.Bank = dig["bank"]
	// map-valued queries, compared decoded (protobuf does not fix the wire order of maps)
	q := orbiterkeeper.NewQueryServer(w.App.OrbiterKeeper)
	a, err1 := q.ActionIDs(ctx, &orbitertypes.QueryActionIDsRequest{})
	p, err2 := q.ProtocolIDs(ctx, &orbitertypes.QueryProtocolIDsRequest{})
	if err1 != nil || err2 != nil {
		return nil, fmt.Errorf("queries: %v %v", err1, err2)
	}
	var parts []string
	for k, v := range a.ActionIds {
		parts = append(parts, fmt.Sprintf("a%d=%s", k, v))
	}
	for k, v := range p.ProtocolIds {
		parts = append(parts, fmt.Sprintf("p%d=%s", k, v))
	}
	sort.Strings(parts)
	tr.Queries = strings.Join(parts, ",")
	return tr, nil
}

// CompareTraces returns a description of the first difference ("" if identical).
func CompareTraces(a, b *Trace, withLog bool) (string, string) {
	if len(a.Blocks) != len(b.Blocks) {
		return "block-count", fmt.Sprintf("%d vs %d blocks", len(a.Blocks), len(b.Blocks))
	}
	for i := range a.Blocks {
		x, y := a.Blocks[i], b.Blocks[i]
		if len(x.Txs) != len(y.Txs) {
			return "tx-count", fmt.Sprintf("block %d", i)
		}
		for j := range x.Txs {
			s, t := x.Txs[j], y.Txs[j]
			switch {
			case s.Ack() != t.Ack():
				return "acknowledgement", fmt.Sprintf("block %d tx %d: %q vs %q", i, j, s.Ack(), t.Ack())
			case s.Code != t.Code || s.Codespace != t.Codespace:
				return "tx-code", fmt.Sprintf("block %d tx %d: %d/%s vs %d/%s", i, j, s.Code, s.Codespace, t.Code, t.Codespace)
			case s.Data != t.Data:
				return "tx-data", fmt.Sprintf("block %d tx %d", i, j)
			case s.Events() != t.Events():
				return "events", fmt.Sprintf("block %d tx %d: %s", i, j, firstDiffLine(s.Events(), t.Events()))
			case s.GasUsed != t.GasUsed:
				return "gas", fmt.Sprintf("block %d tx %d: %d vs %d", i, j, s.GasUsed, t.GasUsed)
			case withLog && s.Log() != t.Log():
				return "tx-log", fmt.Sprintf("block %d tx %d: %q vs %q", i, j, trunc(s.Log(), 300), trunc(t.Log(), 300))
			}
		}
		if x.AppHash != y.AppHash {
			return "app-hash", fmt.Sprintf("block %d: %s vs %s", i, x.AppHash, y.AppHash)
		}
	}
	if a.Genesis != b.Genesis {
		return "exported-state", "exported orbiter genesis differs"
	}
	if a.Bank != b.Bank {
		return "bank-state", "bank store digest differs"
	}
	if a.Queries != b.Queries {
		return "queries", a.Queries + " vs " + b.Queries
	}
	return "", ""
}

func firstDiffLine(a, b string) string {
	x, y := strings.Split(a, "\n"), strings.Split(b, "\n")
	for i := range x {
		if i >= len(y) || x[i] != y[i] {
			o := ""
			if i < len(y) {
				o = y[i]
			}
			// show the neighbourhood of the first differing byte
			k := 0
			for k < len(x[i]) && k < len(o) && x[i][k] == o[k] {
				k++
			}
			from := k - 150
			if from < 0 {
				from = 0
			}
			return fmt.Sprintf("line %d differs at byte %d: …%s VS …%s", i, k, trunc(x[i][from:], 450), trunc(o[minInt(from, len(o)):], 450))
		}
	}
	return "length"
}

// errorCorpus returns memos that exercise as many error texts as possible.
func errorCorpus(l *Lab) []MemoMut {
	var out []MemoMut
	for _, tpl := range l.Templates() {
		for _, m := range MutateMemo(tpl) {
			if len(m.Memo) > 6000 {
				continue
			}
			out = append(out, m)
		}
	}
	return out
}

// RecordStream generates a history on a fresh world, recording the transaction bytes.
func RecordStream(e *fw.Env, channels, blocks int) (*Stream, *Trace, error) {
	l, err := NewLab(world.Config{Channels: channels})
	if err != nil {
		return nil, nil, err
	}
	w := l.W
	st := &Stream{Channels: channels}
	corpus := errorCorpus(l)
	multi := MultiDefectMemos(l)
	for _, tpl := range l.Templates() {
		for _, m := range DoubleMutations(tpl, e.R.Intn, 40) {
			multi = append(multi, m.Memo)
		}
	}
	var ambiguous []MemoMut
	for _, m := range corpus {
		if strings.HasPrefix(m.Kind, "oneof-") {
			ambiguous = append(ambiguous, m)
		}
	}
	rel := w.K("relayer")
	seq := uint64(1 << 42)
	// the recording world executes each block as it is generated (sequences come from state)
	rec := &Trace{}
	pm := NewPauseModel()
	for b := 0; b < blocks; b++ {
		var blk StreamBlock
		var msgsRel []sdk.Msg
		nRecv := 1 + e.R.Intn(3)
		for k := 0; k < nRecv; k++ {
			var t run.Transfer
			switch e.R.Intn(12) {
			case 11: // a fee computation that fails midway (the sum overflows after entries were accumulated), amid ordinary fee transfers
				rc := FeeRecipients(w)
				half := pow2(255).String()
				fl := []spec.Fee{{Recipient: rc[e.R.Intn(len(rc))], Amount: fmt.Sprint(1 + e.R.Intn(500))}, {Recipient: rc[e.R.Intn(len(rc))], Amount: half}, {Recipient: rc[e.R.Intn(len(rc))], Amount: half}}
				if e.R.Intn(2) == 0 {
					fl = fl[1:]
				}
				t = l.NewTransfer(e.R, world.USDC, big.NewInt(int64(1_000_000+e.R.Intn(1000))), &spec.Spec{HasFee: true, Fees: fl, Route: spec.Route{Kind: "internal", To: w.K("rcpt1").String()}})
			case 10: // memos the codec may read in more than one way (both members of a oneof)
				m := ambiguous[e.R.Intn(len(ambiguous))]
				t = l.NewTransfer(e.R, m.Denom, big.NewInt(1_000_000), nil)
				t.Memo = m.Memo
			case 0, 1, 2: // mutated memo (mostly error acknowledgements)
				m := corpus[e.R.Intn(len(corpus))]
				t = l.NewTransfer(e.R, m.Denom, big.NewInt(1_000_000), nil)
				t.Memo = m.Memo
			case 3: // several defects at once: which error is committed must not depend on iteration order
				t = l.NewTransfer(e.R, world.USDC, big.NewInt(1_000_000), nil)
				t.Memo = multi[e.R.Intn(len(multi))]
			case 4, 5, 6: // hostile attributes
				t, _ = genHostile(e.R, l, 10)
			case 7: // hostile packet data
				pair := w.Channels[e.R.Intn(len(w.Channels))]
				dm := DataMutations(l, pair, l.Templates()[0].Spec.Memo())
				d := dm[e.R.Intn(len(dm))]
				if len(d.Data) > 6000 {
					d = dm[0]
				}
				t = run.Transfer{Pair: pair, Denom: world.USDC, Amount: "1", RawData: d.Data}
			default:
				t, _ = genHostile(e.R, l, 100)
				t.Receiver = OrbiterReceiver()
			}
			if t.Denom == world.BIG {
				t.Denom = world.USDC
				t.Pair = w.Channels[e.R.Intn(len(w.Channels))]
				if bi0(t.Amount).Cmp(e12) > 0 {
					t.Amount = "12345678"
				}
			}
			seq++
			f := Forge{A: t.Pair.A, B: t.Pair.B, Seq: seq, Data: t.Data()}
			blk.Forges = append(blk.Forges, f)
			pkt := w.ForgePacketSeq(w.Ctx(), t.Pair, f.Data, f.Seq)
			msgsRel = append(msgsRel, w.MsgRecv(pkt, rel))
		}
		// every receive in its own transaction of the relayer (sequence offsets)
		for i, m := range msgsRel {
			bz, err := w.SignTx([]sdk.Msg{m}, uint64(i), rel)
			if err != nil {
				return nil, nil, err
			}
			blk.Txs = append(blk.Txs, bz)
		}
		if e.R.Intn(3) == 0 {
			var m AdminMsg
			if e.R.Intn(2) == 0 {
				m = GenForwarderMsg(e.R, w, pm)
			} else {
				m = GenExecutorMsg(e.R, w, pm)
			}
			if len(m.IDs) > 5 {
				m.IDs = m.IDs[:5]
			}
			signer := w.Authority
			if m.Signer != w.Authority.String() {
				signer = w.K("carol")
			}
			bz, err := w.SignTx([]sdk.Msg{m.SDK()}, 0, signer)
			if err != nil {
				return nil, nil, err
			}
			blk.Txs = append(blk.Txs, bz)
		}
		if e.R.Intn(4) == 0 {
			dave := w.K("dave")
			bz, err := w.SignTx([]sdk.Msg{&banktypes.MsgSend{FromAddress: dave.String(), ToAddress: world.OrbiterAddr().String(),
				Amount: sdk.NewCoins(sdk.NewCoin(world.USDN, sdkmath.NewInt(int64(1+e.R.Intn(1000)))))}}, 0, dave)
			if err != nil {
				return nil, nil, err
			}
			blk.Txs = append(blk.Txs, bz)
		}
		// forges were already written into the recording world's store above; execute the block
		res, err := w.Block(blk.Txs)
		if err != nil {
			return nil, nil, err
		}
		bt := BlockTrace{AppHash: hex.EncodeToString(res.AppHash)}
		for _, r := range res.TxResults {
			ack, _ := world.AckFromEvents(r.Events)
			bt.Txs = append(bt.Txs, TxTrace{Code: r.Code, Codespace: r.Codespace, Data: hex.EncodeToString(r.Data),
				GasUsed: r.GasUsed, EventsB: []byte(renderEvents(r.Events)), AckB: ack, LogB: []byte(r.Log)})
		}
		rec.Blocks = append(rec.Blocks, bt)
		st.Blocks = append(st.Blocks, blk)
		// keep the pause model roughly in sync so that later admin messages stay interesting
		if got, err := readPauseState(w, w.Ctx(), 1000); err == nil {
			*pm = *got
		}
	}
	return st, rec, nil
}

func bi0(s string) *big.Int {
	v, ok := new(big.Int).SetString(s, 10)
	if !ok {
		return new(big.Int)
	}
	return v
}

// CheckC19 records histories and replays them on fresh worlds in this process (sequentially and
// on parallel goroutines) and in fresh processes; every trace must be byte-identical.
func CheckC19(e *fw.Env, _ *Lab) {
	blocks := 60
	procs, par := 2, 3
	if e.Thorough() {
		blocks, procs, par = 1000, 3, 4
	}
	st, _, err := RecordStream(e, 2, blocks)
	if err != nil {
		e.Res.Fatal("recording failed: %v", err)
		return
	}
	ref, err := Replay(st)
	if err != nil {
		e.Res.Fatal("reference replay failed: %v", err)
		return
	}
	nTx, nErrAck, nOkAck, nFailed := 0, 0, 0, 0
	ackTexts := map[string]bool{}
	for _, b := range ref.Blocks {
		for _, t := range b.Txs {
			nTx++
			switch {
			case t.Code != 0:
				nFailed++
			case t.Ack() != "" && world.AckSuccess(t.AckB):
				nOkAck++
			case t.Ack() != "":
				nErrAck++
				h := sha256.Sum256([]byte(errClass(world.AckError(t.AckB))))
				ackTexts[hex.EncodeToString(h[:6])] = true
			}
		}
	}
	e.Res.CountN("txs-in-stream", nTx)
	e.Res.CountN("error-acks", nErrAck)
	e.Res.CountN("success-acks", nOkAck)
	e.Res.CountN("failed-txs", nFailed)
	for k := range ackTexts {
		e.Res.Sig("error-ack-class|%s", k)
	}
	report := func(who string, tr *Trace) {
		e.Res.Eval()
		kind, detail := CompareTraces(ref, tr, false)
		if kind != "" {
			e.Res.Violate(fw.Violation{Property: "C19", Kind: "replay-differs", Tags: map[string]string{"what": kind},
				Detail: fmt.Sprintf("%s differs from the reference replay in %s: %s", who, kind, detail)})
			return
		}
		if k2, d2 := CompareTraces(ref, tr, true); k2 != "" {
			e.Res.Count("tx-log-differs-only")
			e.Res.Notes["tx-log-difference"] = trunc(d2, 400)
		}
		e.Res.Sig("replay-identical|%s", who)
	}
	// sequential in-process replays
	for i := 0; i < 2; i++ {
		tr, err := ReplayNoise(st, int64(i)*(e.Seed*1000+int64(e.Shard)+7))
		if err != nil {
			e.Res.Inconc("replay: %v", err)
			return
		}
		report(fmt.Sprintf("in-process replay %d%s", i, map[bool]string{true: " (with node-local simulations and queries)", false: ""}[i > 0]), tr)
	}
	// parallel goroutine worlds
	var wg sync.WaitGroup
	trs := make([]*Trace, par)
	errs := make([]error, par)
	for g := 0; g < par; g++ {
		wg.Add(1)
		go func(g int) {
			defer wg.Done()
			trs[g], errs[g] = ReplayNoise(st, int64(g%2)*(e.Seed*977+int64(g)+3))
		}(g)
	}
	wg.Wait()
	for g := 0; g < par; g++ {
		if errs[g] != nil {
			e.Res.Inconc("parallel replay: %v", errs[g])
			continue
		}
		report(fmt.Sprintf("parallel world %d", g), trs[g])
	}
	// fresh processes
	os.MkdirAll(filepath.Join(VerifDir(), ".work"), 0o755)
	dir, err := os.MkdirTemp(filepath.Join(VerifDir(), ".work"), "c19-")
	if err != nil {
		e.Res.Inconc("tempdir: %v", err)
		return
	}
	defer os.RemoveAll(dir)
	sf := filepath.Join(dir, fmt.Sprintf("stream_%d.json", e.Shard))
	bz, _ := json.Marshal(st)
	os.WriteFile(sf, bz, 0o644)
	self, _ := os.Executable()
	for p := 0; p < procs; p++ {
		tf := filepath.Join(dir, fmt.Sprintf("trace_%d_%d.json", e.Shard, p))
		cmd := exec.Command(self, "c19replay", sf, tf)
		cmd.Env = append(os.Environ(), fmt.Sprintf("C19_NOISE=%d", int64(p%2)*(e.Seed*31+int64(p)+11)))
		out, err := cmd.CombinedOutput()
		if err != nil {
			e.Res.Inconc("replay process failed: %v: %s", err, trunc(string(out), 500))
			continue
		}
		var tr Trace
		tb, _ := os.ReadFile(tf)
		if err := json.Unmarshal(tb, &tr); err != nil {
			e.Res.Inconc("bad trace file: %v", err)
			continue
		}
		report(fmt.Sprintf("fresh process %d", p), &tr)
	}
	if e.Shard == 0 {
		// the race-detector build: parallel worlds + concurrent ABCI queries + shared parser
		rr := RunRaceBinary(e.Seed, e.Thorough())
		switch {
		case !rr.Ran:
			e.Res.Fatal("race-detector binary bin/orbcheck-race is missing (bin/check builds it for C19)")
		default:
			for k, v := range rr.Counts {
				e.Res.CountN("race:"+k, int(v))
			}
			e.Res.CountN("race:reports-orbiter", len(rr.Orbiter))
			e.Res.CountN("race:reports-harness", len(rr.Harness))
			e.Res.CountN("race:reports-foreign", len(rr.Foreign))
			if len(rr.Foreign) > 0 {
				e.Res.Notes["race_foreign_reports"] = strings.Join(firstN(rr.Foreign, 5), " || ")
			}
			if len(rr.Harness) > 0 {
				e.Res.Notes["race_harness_reports"] = strings.Join(firstN(rr.Harness, 5), " || ")
			}
			for _, r := range rr.Orbiter {
				e.Res.Violate(fw.Violation{Property: "C19", Kind: "data-race", Tags: map[string]string{"frames": trunc(r, 200)},
					Detail: "the race detector reported a data race with a frame in the orbiter module: " + r})
			}
			if rr.Diverged != "" {
				e.Res.Violate(fw.Violation{Property: "C19", Kind: "replay-differs", Tags: map[string]string{"what": "race-build-parallel-worlds"}, Detail: rr.Diverged})
			} else if rr.ExitErr != "" {
				e.Res.Fatal("race run failed: %s", rr.ExitErr)
			} else if rr.Counts["blocks_replayed"] > 0 {
				e.Res.Sig("race-run|clean|worlds=%d", rr.Counts["worlds"])
			}
		}
		// a sample of what was compared
		var acks []string
		for _, b := range ref.Blocks {
			for _, t := range b.Txs {
				if t.Ack() != "" && !world.AckSuccess(t.AckB) && len(acks) < 3 {
					acks = append(acks, trunc(t.Ack(), 300))
				}
			}
		}
		e.Res.Sample(map[string]any{"blocks": len(ref.Blocks), "txs": nTx, "error_acks": nErrAck, "success_acks": nOkAck,
			"last_app_hash": ref.Blocks[len(ref.Blocks)-1].AppHash, "sample_error_acks": acks})
	}
	_ = spec.Spec{}
}

// errClass strips digits so that error texts differing only in numbers fall into one class.
func errClass(s string) string {
	var sb strings.Builder
	for _, c := range s {
		if c >= '0' && c <= '9' {
			continue
		}
		sb.WriteRune(c)
	}
	if sb.Len() > 160 {
		return sb.String()[:160]
	}
	return sb.String()
}

// C19ReplayMain is the entry point of the fresh-process replay.
func C19ReplayMain(streamFile, traceFile string) error {
	bz, err := os.ReadFile(streamFile)
	if err != nil {
		return err
	}
	var st Stream
	if err := json.Unmarshal(bz, &st); err != nil {
		return err
	}
	noise, _ := strconv.ParseInt(os.Getenv("C19_NOISE"), 10, 64)
	tr, err := ReplayNoise(&st, noise)
	if err != nil {
		return err
	}
	out, _ := json.Marshal(tr)
	return os.WriteFile(traceFile, out, 0o644)
}

func minInt(a, b int) int {
	if a < b {
		return a
	}
	return b
}
