package checks

import (
	"fmt"
	"math/big"
	"sort"
	"strings"

	"github.com/circlefin/noble-fiattokenfactory/x/blockibc"
	ftftypes "github.com/circlefin/noble-fiattokenfactory/x/fiattokenfactory/types"

	sdk "github.com/cosmos/cosmos-sdk/types"
	transfertypes "github.com/cosmos/ibc-go/v8/modules/apps/transfer/types"
	porttypes "github.com/cosmos/ibc-go/v8/modules/core/05-port/types"

	"github.com/noble-assets/orbiter/v2/types/core"

	"orbverif/altstack"
	"orbverif/fw"
	"orbverif/run"
	"orbverif/spec"
	"orbverif/world"
)

type shape struct {
	Name  string
	Denom string
	Spec  spec.Spec
	Dust  bool
}

func (l *Lab) shapes() []shape {
	w := l.W
	rc := FeeRecipients(w)
	mint := make([]byte, 32)
	mint[31] = 5
	zero := "0"
	routes := []struct {
		name  string
		denom string
		rt    spec.Route
	}{
		{"cctp", world.USDC, spec.Route{Kind: "cctp", Domain: 0, MintRecipient: mint}},
		{"cctp+caller", world.USDC, spec.Route{Kind: "cctp", Domain: 2, MintRecipient: mint, Caller: mint}},
		{"hyp", world.USDN, spec.Route{Kind: "hyp", Domain: 1, TokenID: w.Hyp.TokenUSDN.Bytes(), Recipient: mint, GasLimit: &zero, MaxFee: &spec.Coin{Denom: world.USDN, Amount: "0"}}},
		{"internal", world.USDC, spec.Route{Kind: "internal", To: w.K("rcpt1").String()}},
	}
	fees := map[string][]spec.Fee{
		"nofee": nil,
		"fee1":  {{Recipient: rc[0], IsBPS: true, BPS: 100}},
		"fee5": {{Recipient: rc[0], IsBPS: true, BPS: 1}, {Recipient: rc[1], Amount: "5"}, {Recipient: rc[2], IsBPS: true, BPS: 250},
			{Recipient: rc[3], Amount: "77"}, {Recipient: rc[0], IsBPS: true, BPS: 10}},
	}
	var out []shape
	for _, r := range routes {
		for _, fn := range []string{"nofee", "fee1", "fee5"} {
			for _, dust := range []bool{false, true} {
				s := spec.Spec{Route: r.rt}
				if fees[fn] != nil {
					s.HasFee, s.Fees = true, fees[fn]
				}
				out = append(out, shape{Name: fmt.Sprintf("%s/%s/dust=%v", r.name, fn, dust), Denom: r.denom, Spec: s, Dust: dust})
			}
		}
	}
	return out
}

// installAlt routes the transfer port of the application to blockibc(alternative middleware), so
// that the real core MsgRecvPacket handler drives the fault-injecting stack.
func installAlt(w *world.World, st *altstack.Stack) {
	var m porttypes.IBCModule = st.Module
	m = blockibc.NewIBCMiddleware(m, w.App.FTFKeeper)
	w.App.IBCKeeper.Router = porttypes.NewRouter().AddRoute(transfertypes.ModuleName, m)
}

// CheckC03 enumerates single faults (and pairs) at every dependency for every payload shape.
func CheckC03(e *fw.Env, l *Lab) {
	w := l.W
	st, err := altstack.New(w, altstack.Options{})
	if err != nil {
		e.Res.Inconc("alternative stack: %v", err)
		return
	}
	installAlt(w, st)
	modeC := run.Mode{Kind: "C", Mod: st.Module}
	modeH := run.Mode{Kind: "H"}
	idx := 0
	sitesSeen := map[string]bool{}
	for _, sh := range l.shapes() {
		base, _ := l.Base.CacheContext()
		if sh.Dust {
			if err := Deposit(w, base, w.K("carol"), sh.Denom, big.NewInt(4321)); err != nil {
				e.Res.Inconc("deposit: %v", err)
				continue
			}
		}
		mk := func() run.Transfer {
			s := sh.Spec
			return run.Transfer{Pair: w.Channels[0], Denom: sh.Denom, Amount: "1000000", Sender: w.K("bob").String(), Receiver: OrbiterReceiver(), Spec: &s}
		}
		// fault-free run: counts the calls at every site
		st.Rec.Reset(nil)
		ctx, _ := base.CacheContext()
		o := run.Do(w, ctx, mk(), modeC)
		e.Res.Eval()
		Universal(e.Res, o)
		if !o.Success() {
			e.Res.Inconc("shape %s does not succeed fault-free: %s", sh.Name, o.Res.String())
			continue
		}
		counts := map[string]int{}
		for k, v := range st.Rec.Count {
			counts[k] = v
		}
		var sites []string
		for s := range counts {
			if s == "app.OnRecvPacket" {
				continue // handled separately
			}
			sites = append(sites, s)
		}
		sort.Strings(sites)
		type fault struct {
			plan   altstack.Plan
			appErr string
			name   string
			panics bool // the dependency panics instead of returning an error
		}
		var faults []fault
		for _, s := range sites {
			for k := 1; k <= counts[s]; k++ {
				faults = append(faults, fault{plan: altstack.Plan{s: k}, name: fmt.Sprintf("%s#%d", s, k)})
			}
		}
		faults = append(faults, fault{appErr: "before", name: "app#error-ack"}, fault{appErr: "after", name: "app#error-ack-after-partial-work"})
		// a dependency that panics (the bridge modules do on some inputs): the panic may propagate
		// (the transaction is aborted, nothing is committed) or become an error acknowledgement,
		// but the packet is never acknowledged as successful
		for _, s := range sites {
			faults = append(faults, fault{plan: altstack.Plan{s: counts[s]}, name: fmt.Sprintf("panic:%s#%d", s, counts[s]), panics: true})
		}
		if e.Thorough() {
			// ordered pairs of distinct sites (the second only matters if the first is not reached)
			for i, a := range sites {
				for j, b := range sites {
					if i != j {
						faults = append(faults, fault{plan: altstack.Plan{a: counts[a], b: 1}, name: fmt.Sprintf("pair:%s#%d+%s#1", a, counts[a], b)})
					}
				}
			}
		}
		for _, f := range faults {
			idx++
			if !e.Mine(idx) {
				continue
			}
			for _, mode := range []run.Mode{modeC, modeH} {
				st.Rec.Reset(f.plan)
				st.Rec.AppErr = f.appErr
				st.Rec.Panic = f.panics
				ctx, _ := base.CacheContext()
				before := w.StoreDigest(ctx)["orbiter"]
				e.Log(map[string]any{"shape": sh.Name, "fault": f.name, "mode": mode.Kind})
				o := run.Do(w, ctx, mk(), mode)
				e.Res.Eval()
				if !f.panics {
					MonPanic(e.Res, o)
				}
				fired := append([]string(nil), st.Rec.Fired...)
				wtn := map[string]any{"shape": sh.Name, "fault": f.name, "mode": mode.Kind, "fired": fired, "outcome": o.Res.String(), "delta": o.Delta.String(), "calls": len(st.Rec.Calls)}
				if len(fired) == 0 {
					e.Res.Inconc("fault %s armed but not reached on shape %s", f.name, sh.Name)
					continue
				}
				for _, fs := range fired {
					sitesSeen[fs] = true
				}
				tags := map[string]string{"site": siteOf(f.name)}
				switch {
				case o.Res.Panic != nil:
					// reported by MonPanic
				case o.Res.Err != nil:
					e.Res.Inconc("handler error under fault %s: %v", f.name, o.Res.Err)
				case o.Res.Ack == nil:
					e.Res.Violate(fw.Violation{Property: "C03", Kind: "no-acknowledgement-after-failure", Tags: tags, Detail: "a step failed and no acknowledgement was returned", Witness: wtn})
				case o.Success():
					e.Res.Violate(fw.Violation{Property: "C03", Kind: "success-acknowledgement-after-failure", Tags: tags,
						Detail: fmt.Sprintf("fault %s fired on shape %s, yet the acknowledgement is a success (ledger delta {%s})", f.name, sh.Name, o.Delta), Witness: wtn})
				default:
					// error acknowledgement: nothing of the transfer may survive
					if len(o.Delta.Bal) != 0 || len(o.Delta.Supply) != 0 || w.StoreDigest(ctx)["orbiter"] != before ||
						len(run.StatsDelta(o.StatsBefore, o.StatsAfter)) != 0 {
						e.Res.Violate(fw.Violation{Property: "C03", Kind: "effects-survive-error-acknowledgement", Tags: tags,
							Detail: "ledger / orbiter state changed although the acknowledgement is an error: " + o.Delta.String(), Witness: wtn})
					}
				}
				e.Res.Sig("%s|%s|%s|%s", sh.Name, f.name, mode.Kind, outcomeClass(o))
			}
		}
		if sh.Name == "cctp/fee5/dust=true" && e.Shard == 0 {
			e.Res.Sample(map[string]any{"shape": sh.Name, "calls_per_site_fault_free": counts, "faults_enumerated": len(faults)})
		}
	}
	e.Res.Notes["injection_sites_fired"] = fmt.Sprint(len(sitesSeen))
	naturalFailures(e)
	gasExhaustion(e)
	statsLimitC03(e)
}

func siteOf(name string) string {
	for i, c := range name {
		if c == '#' {
			return name[:i]
		}
	}
	return name
}

// naturalFailures provokes failures of the real dependencies on the native wiring.
func naturalFailures(e *fw.Env) {
	if e.Shard > 2 && !e.Thorough() {
		return
	}
	l, err := NewLab(world.Config{})
	if err != nil {
		e.Res.Inconc("world: %v", err)
		return
	}
	w := l.W
	mint := make([]byte, 32)
	mint[31] = 8
	zero := "0"
	rc := FeeRecipients(w)
	type nat struct {
		name  string
		setup func(ctx sdk.Context) error
		denom string
		amt   *big.Int
		spec  spec.Spec
	}
	dusty := func(denom string, amt int64) func(ctx sdk.Context) error {
		return func(ctx sdk.Context) error { return Deposit(w, ctx, w.K("carol"), denom, big.NewInt(amt)) }
	}
	cctp := spec.Route{Kind: "cctp", Domain: 0, MintRecipient: mint}
	internal := spec.Route{Kind: "internal", To: w.K("rcpt1").String()}
	hyp := spec.Route{Kind: "hyp", Domain: 1, TokenID: w.Hyp.TokenUSDC.Bytes(), Recipient: mint, GasLimit: &zero, MaxFee: &spec.Coin{Denom: world.USDN, Amount: "0"}}
	blacklist := func(addr string) func(ctx sdk.Context) error {
		return func(ctx sdk.Context) error {
			return w.Handle(ctx, &ftftypes.MsgBlacklist{From: w.K("ftfblacklister").String(), Address: addr}).Err
		}
	}
	cases := []nat{
		{"oversized-passthrough", nil, world.USDC, big.NewInt(1_000_000), spec.Spec{Route: internal, Passthrough: []byte("hello")}},
		{"oversized-passthrough-with-dust-on-the-orbiter-account", dusty(world.USDC, 12345), world.USDC, big.NewInt(1_000_000), spec.Spec{Route: internal, Passthrough: []byte("hello")}},
		{"oversized-passthrough-with-dust-and-fee", dusty(world.USDN, 1), world.USDN, big.NewInt(1_000_000), spec.Spec{HasFee: true, Fees: []spec.Fee{{Recipient: rc[1], IsBPS: true, BPS: 10}}, Route: spec.Route{Kind: "internal", To: w.K("rcpt2").String()}, Passthrough: make([]byte, 300)}},
		{"blacklisted-fee-recipient", blacklist(rc[0]), world.USDC, big.NewInt(1_000_000), spec.Spec{HasFee: true, Fees: []spec.Fee{{Recipient: rc[1], IsBPS: true, BPS: 10}, {Recipient: rc[0], IsBPS: true, BPS: 10}}, Route: cctp}},
		{"blacklisted-internal-recipient", blacklist(w.K("rcpt1").String()), world.USDC, big.NewInt(1_000_000), spec.Spec{HasFee: true, Fees: []spec.Fee{{Recipient: rc[1], IsBPS: true, BPS: 10}}, Route: internal}},
		{"paused-token-factory", func(ctx sdk.Context) error {
			return w.Handle(ctx, &ftftypes.MsgPause{From: w.K("ftfpauser").String()}).Err
		}, world.USDC, big.NewInt(1_000_000), spec.Spec{Route: cctp}},
		{"burn-limit-exceeded", nil, world.USDC, new(big.Int).Add(world.BurnLimit.BigInt(), big.NewInt(5)), spec.Spec{HasFee: true, Fees: []spec.Fee{{Recipient: rc[1], Amount: "1"}}, Route: cctp}},
		{"domain-without-messenger", nil, world.USDC, big.NewInt(1_000_000), spec.Spec{HasFee: true, Fees: []spec.Fee{{Recipient: rc[1], IsBPS: true, BPS: 10}}, Route: spec.Route{Kind: "cctp", Domain: 1, MintRecipient: mint}}},
		{"unenrolled-router", nil, world.USDC, big.NewInt(1_000_000), spec.Spec{HasFee: true, Fees: []spec.Fee{{Recipient: rc[1], IsBPS: true, BPS: 10}}, Route: func() spec.Route { r := hyp; r.Domain = 7; return r }()}},
		{"wrong-denom-token", nil, world.USDC, big.NewInt(1_000_000), spec.Spec{HasFee: true, Fees: []spec.Fee{{Recipient: rc[1], IsBPS: true, BPS: 10}}, Route: func() spec.Route { r := hyp; r.TokenID = w.Hyp.TokenUSDN.Bytes(); return r }()}},
		{"blocked-internal-recipient", nil, world.USDC, big.NewInt(1_000_000), spec.Spec{HasFee: true, Fees: []spec.Fee{{Recipient: rc[1], IsBPS: true, BPS: 10}}, Route: spec.Route{Kind: "internal", To: ModAddr("bonded_tokens_pool")}}},
		{"fee-to-the-orbiter-account-breaks-balance-precondition", nil, world.USDC, big.NewInt(1_000_000), spec.Spec{HasFee: true, Fees: []spec.Fee{{Recipient: rc[1], IsBPS: true, BPS: 10}, {Recipient: OrbiterReceiver(), Amount: "1000"}}, Route: internal}},
		{"fee-to-the-orbiter-account-cctp", nil, world.USDC, big.NewInt(1_000_000), spec.Spec{HasFee: true, Fees: []spec.Fee{{Recipient: OrbiterReceiver(), IsBPS: true, BPS: 100}}, Route: cctp}},
		{"insufficient-escrow", nil, world.USDC, new(big.Int).Mul(e14, big.NewInt(5)), spec.Spec{Route: internal}},
		{"cctp-non-burnable-denom", nil, world.USDN, big.NewInt(1_000_000), spec.Spec{HasFee: true, Fees: []spec.Fee{{Recipient: rc[1], IsBPS: true, BPS: 10}}, Route: cctp}},
		{"igp-hook-without-funds", nil, world.USDC, big.NewInt(1_000_000), spec.Spec{HasFee: true, Fees: []spec.Fee{{Recipient: rc[1], IsBPS: true, BPS: 10}},
			Route: func() spec.Route {
				r := hyp
				r.HookID = w.Hyp.IGP.Bytes()
				r.MaxFee = &spec.Coin{Denom: world.USDN, Amount: "1000000"}
				return r
			}()}},
	}
	// refusals that are rules of the module itself: a success acknowledgement means the error
	// was lost (or the step skipped) on the way
	pauseFee := func(ctx sdk.Context) error { return PauseAction(w, ctx, "ACTION_FEE") }
	cases = append(cases,
		nat{"own-rule:action-without-controller", nil, world.USDC, big.NewInt(1_000_000), spec.Spec{Route: internal}},
		nat{"own-rule:fee-then-action-without-controller", nil, world.USDC, big.NewInt(1_000_000), spec.Spec{Route: internal}},
		nat{"own-rule:fees-equal-to-the-amount", nil, world.USDC, big.NewInt(1_000_000), spec.Spec{HasFee: true, Fees: []spec.Fee{{Recipient: rc[1], Amount: "1000000"}}, Route: cctp}},
		nat{"own-rule:fees-above-the-amount", nil, world.USDN, big.NewInt(1_000_000), spec.Spec{HasFee: true, Fees: []spec.Fee{{Recipient: rc[1], IsBPS: true, BPS: 6000}, {Recipient: rc[2], Amount: "400001"}}, Route: internal}},
		nat{"own-rule:paused-fee-action", pauseFee, world.USDC, big.NewInt(1_000_000), spec.Spec{HasFee: true, Fees: []spec.Fee{{Recipient: rc[1], IsBPS: true, BPS: 10}}, Route: internal}},
		nat{"own-rule:paused-protocol", func(ctx sdk.Context) error { return PauseProtocol(w, ctx, "PROTOCOL_CCTP") }, world.USDC, big.NewInt(1_000_000), spec.Spec{HasFee: true, Fees: []spec.Fee{{Recipient: rc[1], IsBPS: true, BPS: 10}}, Route: cctp}},
		nat{"own-rule:coin-native-to-the-sending-chain", nil, world.USDC, big.NewInt(1_000_000), spec.Spec{Route: internal}},
		nat{"own-rule:voucher-of-another-channel", nil, world.USDC, big.NewInt(1_000_000), spec.Spec{Route: internal}},
		nat{"own-rule:paused-counterparty", func(ctx sdk.Context) error { return PauseCrossChains(w, ctx, "PROTOCOL_HYPERLANE", []string{"1"}) }, world.USDC, big.NewInt(1_000_000), spec.Spec{Route: hyp}},
	)
	feeOne := [][]spec.Fee{{{Recipient: rc[1], IsBPS: true, BPS: 100}}}
	memoOverride := map[string]string{
		"own-rule:action-without-controller":          actionsMemo([]string{"swap"}, nil, internal),
		"own-rule:fee-then-action-without-controller": actionsMemo([]string{"fee", "swap"}, feeOne, internal),
	}
	swapWired := w.App.OrbiterKeeper.Executor().Router().HasRoute(core.ACTION_SWAP)
	for _, c := range cases {
		if swapWired && strings.Contains(c.name, "action-without-controller") {
			continue // this application does wire a controller for ACTION_SWAP
		}
		ctx, _ := l.Base.CacheContext()
		if c.setup != nil {
			if err := c.setup(ctx); err != nil {
				e.Res.Inconc("natural failure %s: setup failed: %v", c.name, err)
				continue
			}
		}
		s := c.spec
		t := l.NewTransfer(e.R, c.denom, c.amt, &s)
		if m, ok := memoOverride[c.name]; ok {
			t.Spec, t.Memo = nil, m
		}
		// coins the orbiter does not handle (only returning Noble-native coins are)
		switch c.name {
		case "own-rule:coin-native-to-the-sending-chain":
			d := "uatom"
			t.RawDenom = &d
		case "own-rule:voucher-of-another-channel":
			d := world.Port + "/channel-77/" + world.USDC
			t.RawDenom = &d
		}
		before := w.StoreDigest(ctx)["orbiter"]
		o := run.Do(w, ctx, t, run.Mode{Kind: "H"})
		e.Res.Eval()
		MonPanic(e.Res, o)
		wtn := map[string]any{"natural_failure": c.name, "transfer": t, "outcome": o.Res.String(), "delta": o.Delta.String()}
		switch {
		case o.Res.Panic != nil || o.Res.Err != nil:
		case o.Res.Ack == nil:
			e.Res.Violate(fw.Violation{Property: "C03", Kind: "no-acknowledgement-after-failure", Tags: map[string]string{"site": "natural:" + c.name}, Detail: c.name, Witness: wtn})
		case o.Success() && (strings.HasPrefix(c.name, "oversized-") || strings.HasPrefix(c.name, "own-rule:")):
			// the refusal is a rule of the module itself (default limit 0), not of a dependency: a
			// success acknowledgement means the error was lost on the way
			e.Res.Violate(fw.Violation{Property: "C03", Kind: "error-swallowed", Tags: map[string]string{"site": "natural:" + c.name},
				Detail: "the module itself must refuse this packet, yet it is acknowledged as successful: " + o.Delta.String(), Witness: wtn})
		case o.Success():
			e.Res.Inconc("natural failure %s did not occur (transfer succeeded)", c.name)
		default:
			if len(o.Delta.Bal) != 0 || len(o.Delta.Supply) != 0 || w.StoreDigest(ctx)["orbiter"] != before {
				e.Res.Violate(fw.Violation{Property: "C03", Kind: "effects-survive-error-acknowledgement", Tags: map[string]string{"site": "natural:" + c.name},
					Detail: "fees or other effects kept for a transfer that was not forwarded: " + o.Delta.String(), Witness: wtn})
			}
			e.Res.Sig("natural|%s|error-ack", c.name)
		}
	}
}
