// Package checks holds the per-property workloads and monitors.
package checks

import (
	"fmt"
	"math/big"
	"math/rand"
	"strings"

	sdkmath "cosmossdk.io/math"
	sdk "github.com/cosmos/cosmos-sdk/types"
	authtypes "github.com/cosmos/cosmos-sdk/x/auth/types"
	transfertypes "github.com/cosmos/ibc-go/v8/modules/apps/transfer/types"

	"orbverif/model"
	"orbverif/run"
	"orbverif/spec"
	"orbverif/world"
)

// Dest is a destination template whose success was calibrated on this world.
type Dest struct {
	Name  string
	Denom string
	Proto int32
	Cp    string
	Max   *big.Int // largest amount the route is known to take
	Make  func(r *rand.Rand) spec.Route
}

// Lab is a prepared world: escrows funded, destination templates calibrated.
type Lab struct {
	W     *world.World
	Base  sdk.Context // working state (a branch over the committed state; never committed)
	Dests []Dest
	// Rejected templates (calibration failed), for the evidence.
	Rejected []string
}

var (
	e14 = big.NewInt(100_000_000_000_000)
	e12 = big.NewInt(1_000_000_000_000)
)

func bi(s string) *big.Int {
	v, ok := new(big.Int).SetString(s, 10)
	if !ok {
		panic("bad int " + s)
	}
	return v
}

// MaxU256 is 2^256-1.
var MaxU256 = new(big.Int).Sub(new(big.Int).Lsh(big.NewInt(1), 256), big.NewInt(1))

// EscrowAddr is the ICS-20 escrow account of a channel.
func EscrowAddr(ch string) string {
	return transfertypes.GetEscrowAddress(world.Port, ch).String()
}

// ModAddr is a module account address.
func ModAddr(name string) string { return authtypes.NewModuleAddress(name).String() }

// NewLab builds a world and funds the escrows: uusdc/uusdn 4e14 on every pair, the whole ubig
// supply on pair 0.
func NewLab(cfg world.Config) (*Lab, error) {
	w, err := world.New(cfg)
	if err != nil {
		return nil, err
	}
	alice := w.K("alice")
	amt := sdkmath.NewIntFromBigInt(new(big.Int).Mul(e14, big.NewInt(4)))
	for _, p := range w.Channels {
		for _, d := range []string{world.USDC, world.USDN} {
			if _, err := w.Escrow(p, alice, w.K("bob").Addr, sdk.NewCoin(d, amt)); err != nil {
				return nil, fmt.Errorf("escrow %s on %s: %w", d, p.A, err)
			}
		}
	}
	if _, err := w.Escrow(w.Channels[0], alice, w.K("bob").Addr, sdk.NewCoin(world.BIG, world.MaxUint256())); err != nil {
		return nil, fmt.Errorf("escrow ubig: %w", err)
	}
	// smaller escrows of two more native coins on the first channel: ueure, and uUSDC, which
	// differs from uusdc in letter case only
	for _, d := range []string{world.EURE, world.UP} {
		if _, err := w.Escrow(w.Channels[0], alice, w.K("bob").Addr, sdk.NewCoin(d, sdkmath.NewInt(10_000_000_000_000))); err != nil {
			return nil, fmt.Errorf("escrow %s: %w", d, err)
		}
	}
	for _, m := range []string{"auth", "bonded_tokens_pool", "not_bonded_tokens_pool", "orbiter/dust_collector"} {
		model.BlockedRecipients[ModAddr(m)] = true
	}
	model.OrbiterAddress = world.OrbiterAddr().String()
	l := &Lab{W: w}
	l.Base = w.Branch()
	if !cfg.SkipHyperlane {
		l.calibrate()
	} else {
		l.calibrateNoHyp()
	}
	return l, nil
}

func rnd32(r *rand.Rand) []byte {
	b := make([]byte, 32)
	r.Read(b)
	if b[31] == 0 {
		b[31] = 1
	}
	return b
}

func evmAddr32(r *rand.Rand) []byte {
	b := make([]byte, 32)
	r.Read(b[12:])
	b[31] |= 1
	return b
}

func (l *Lab) templates() []Dest {
	w := l.W
	var out []Dest
	for _, d := range world.CCTPDomainsWithMessenger {
		d := d
		out = append(out, Dest{
			Name: fmt.Sprintf("cctp:%d", d), Denom: world.USDC, Proto: 2, Cp: fmt.Sprintf("%d", d),
			Max: world.BurnLimit.BigInt(),
			Make: func(r *rand.Rand) spec.Route {
				return spec.Route{Kind: "cctp", Domain: d, MintRecipient: evmAddr32(r)}
			},
		})
		out = append(out, Dest{
			Name: fmt.Sprintf("cctp:%d+caller", d), Denom: world.USDC, Proto: 2, Cp: fmt.Sprintf("%d", d),
			Max: world.BurnLimit.BigInt(),
			Make: func(r *rand.Rand) spec.Route {
				return spec.Route{Kind: "cctp", Domain: d, MintRecipient: evmAddr32(r), Caller: evmAddr32(r)}
			},
		})
	}
	if !w.Cfg.SkipHyperlane {
		toks := []struct {
			denom string
			id    []byte
			max   *big.Int
		}{
			{world.USDC, w.Hyp.TokenUSDC.Bytes(), e14},
			{world.USDN, w.Hyp.TokenUSDN.Bytes(), e14},
			{world.BIG, w.Hyp.TokenBIG.Bytes(), MaxU256},
		}
		for _, t := range toks {
			t := t
			for _, d := range w.Hyp.Enrolled {
				d := d
				zero := "0"
				out = append(out, Dest{
					Name: fmt.Sprintf("hyp:%s:%d", t.denom, d), Denom: t.denom, Proto: 3, Cp: fmt.Sprintf("%d", d), Max: t.max,
					Make: func(r *rand.Rand) spec.Route {
						return spec.Route{Kind: "hyp", Domain: d, TokenID: t.id, Recipient: evmAddr32(r),
							GasLimit: &zero, MaxFee: &spec.Coin{Denom: world.USDN, Amount: "0"}}
					},
				})
			}
			// explicit noop hook + gas limit + metadata
			gl := "250000"
			hook := w.Hyp.NoopHook.Bytes()
			out = append(out, Dest{
				Name: fmt.Sprintf("hyp:%s:1+hook", t.denom), Denom: t.denom, Proto: 3, Cp: "1", Max: t.max,
				Make: func(r *rand.Rand) spec.Route {
					return spec.Route{Kind: "hyp", Domain: 1, TokenID: t.id, Recipient: evmAddr32(r),
						HookID: hook, GasLimit: &gl, Metadata: "0x00ff", MaxFee: &spec.Coin{Denom: world.USDN, Amount: "1000000"}}
				},
			})
		}
	}
	for _, denom := range []string{world.USDC, world.USDN, world.BIG} {
		denom := denom
		max := e14
		if denom == world.BIG {
			max = MaxU256
		}
		for _, rc := range []string{"rcpt1", "rcpt2", "rcpt3"} {
			to := w.K(rc).String()
			out = append(out, Dest{
				Name: "internal:" + denom + ":" + rc, Denom: denom, Proto: 4, Cp: "noble", Max: max,
				Make: func(r *rand.Rand) spec.Route { return spec.Route{Kind: "internal", To: to} },
			})
		}
	}
	return out
}

// PairFor returns a channel pair that has escrow for denom (ubig lives on pair 0 only).
func (l *Lab) PairFor(r *rand.Rand, denom string) world.ChannelPair {
	if denom == world.BIG {
		return l.W.Channels[0]
	}
	return l.W.Channels[r.Intn(len(l.W.Channels))]
}

// OrbiterReceiver is the canonical receiver string of the orbiter account.
func OrbiterReceiver() string { return world.OrbiterAddr().String() }

// NewTransfer builds a transfer of amount of denom to the orbiter with the given spec.
func (l *Lab) NewTransfer(r *rand.Rand, denom string, amount *big.Int, s *spec.Spec) run.Transfer {
	return run.Transfer{
		Pair: l.PairFor(r, denom), Denom: denom, Amount: amount.String(),
		Sender: l.W.K("bob").String(), Receiver: OrbiterReceiver(), Spec: s,
	}
}

func (l *Lab) calibrate() {
	r := rand.New(rand.NewSource(1))
	for _, d := range l.templates() {
		ctx, _ := l.Base.CacheContext()
		rt := d.Make(r)
		o := run.Do(l.W, ctx, l.NewTransfer(r, d.Denom, big.NewInt(1_000_000), &spec.Spec{Route: rt}), run.Mode{Kind: "H"})
		if o.Success() {
			l.Dests = append(l.Dests, d)
		} else {
			l.Rejected = append(l.Rejected, d.Name+": "+o.Res.String())
		}
	}
}

func (l *Lab) calibrateNoHyp() { l.calibrate() }

// DestsFor returns calibrated destinations for a denom ("" = any).
func (l *Lab) DestsFor(denom string) []Dest {
	var out []Dest
	for _, d := range l.Dests {
		if denom == "" || d.Denom == denom {
			out = append(out, d)
		}
	}
	return out
}

// PickDest picks a calibrated destination.
func (l *Lab) PickDest(r *rand.Rand, denom string) Dest {
	ds := l.DestsFor(denom)
	return ds[r.Intn(len(ds))]
}

// IsOrbiterReceiver is the model's classification of a receiver string: does it decode (bech32,
// either case, chain prefix) to the orbiter module account?
func IsOrbiterReceiver(s string) bool {
	if s != strings.ToLower(s) && s != strings.ToUpper(s) {
		return false // mixed case is not valid bech32
	}
	addr, err := sdk.AccAddressFromBech32(strings.ToLower(s))
	if err != nil {
		return false
	}
	return addr.Equals(world.OrbiterAddr())
}
