package checks

import (
	"bytes"
	"encoding/base64"
	"fmt"
	"math/big"
	"strings"

	warptypes "github.com/bcp-innovations/hyperlane-cosmos/x/warp/types"
	cctptypes "github.com/circlefin/noble-cctp/x/cctp/types"

	banktypes "github.com/cosmos/cosmos-sdk/x/bank/types"

	forwardercomp "github.com/noble-assets/orbiter/v2/keeper/component/forwarder"
	forwardertypes "github.com/noble-assets/orbiter/v2/types/component/forwarder"

	"orbverif/altstack"
	"orbverif/fw"
	"orbverif/model"
	"orbverif/run"
	"orbverif/spec"
	"orbverif/world"
)

var bridgeSites = []string{"cctp.DepositForBurn", "cctp.DepositForBurnWithCaller", "hyp.RemoteTransfer", "bank.Msg/Send"}

// compareRequest checks the recorded bridge request against the spec. It returns "" when equal.
func compareRequest(c altstack.Call, s *spec.Spec, denom string, forward *big.Int) string {
	orb := world.OrbiterAddr().String()
	r := s.Route
	switch m := c.Obj.(type) {
	case *cctptypes.MsgDepositForBurn:
		switch {
		case r.Kind != "cctp":
			return "CCTP called for route " + r.Kind
		case len(r.Caller) != 0:
			return "DepositForBurn used although a destination caller is given"
		case m.From != orb:
			return "From " + m.From
		case m.Amount.BigInt().Cmp(forward) != 0:
			return fmt.Sprintf("Amount %s, want %s", m.Amount, forward)
		case m.DestinationDomain != r.Domain:
			return fmt.Sprintf("DestinationDomain %d, want %d", m.DestinationDomain, r.Domain)
		case !bytes.Equal(m.MintRecipient, r.MintRecipient):
			return "MintRecipient differs"
		case m.BurnToken != denom:
			return "BurnToken " + m.BurnToken
		}
	case *cctptypes.MsgDepositForBurnWithCaller:
		switch {
		case r.Kind != "cctp":
			return "CCTP called for route " + r.Kind
		case len(r.Caller) == 0:
			return "DepositForBurnWithCaller used without a destination caller"
		case m.From != orb:
			return "From " + m.From
		case m.Amount.BigInt().Cmp(forward) != 0:
			return fmt.Sprintf("Amount %s, want %s", m.Amount, forward)
		case m.DestinationDomain != r.Domain:
			return fmt.Sprintf("DestinationDomain %d, want %d", m.DestinationDomain, r.Domain)
		case !bytes.Equal(m.MintRecipient, r.MintRecipient):
			return "MintRecipient differs"
		case !bytes.Equal(m.DestinationCaller, r.Caller):
			return "DestinationCaller differs"
		case m.BurnToken != denom:
			return "BurnToken " + m.BurnToken
		}
	case *warptypes.MsgRemoteTransfer:
		gl := "0"
		if r.GasLimit != nil {
			gl = *r.GasLimit
		}
		switch {
		case r.Kind != "hyp":
			return "Hyperlane called for route " + r.Kind
		case m.Sender != orb:
			return "Sender " + m.Sender
		case !bytes.Equal(m.TokenId.Bytes(), r.TokenID):
			return "TokenId differs"
		case m.DestinationDomain != r.Domain:
			return fmt.Sprintf("DestinationDomain %d, want %d", m.DestinationDomain, r.Domain)
		case !bytes.Equal(m.Recipient.Bytes(), r.Recipient):
			return "Recipient differs"
		case m.Amount.BigInt().Cmp(forward) != 0:
			return fmt.Sprintf("Amount %s, want %s", m.Amount, forward)
		case (m.CustomHookId == nil) != (len(r.HookID) == 0):
			return "CustomHookId presence differs"
		case m.CustomHookId != nil && !bytes.Equal(m.CustomHookId.Bytes(), r.HookID):
			return "CustomHookId differs"
		case m.GasLimit.String() != bigOr0(gl).String():
			return fmt.Sprintf("GasLimit %s, want %s", m.GasLimit, gl)
		case r.MaxFee != nil && (m.MaxFee.Denom != r.MaxFee.Denom || m.MaxFee.Amount.String() != bigOr0(r.MaxFee.Amount).String()):
			return fmt.Sprintf("MaxFee %s, want %v", m.MaxFee, r.MaxFee)
		case m.CustomHookMetadata != r.Metadata:
			return "CustomHookMetadata " + m.CustomHookMetadata
		}
	case *banktypes.MsgSend:
		switch {
		case r.Kind != "internal":
			return "bank Send called for route " + r.Kind
		case m.FromAddress != orb:
			return "FromAddress " + m.FromAddress
		case m.ToAddress != r.To:
			return "ToAddress " + m.ToAddress
		case len(m.Amount) != 1 || m.Amount[0].Denom != denom || m.Amount[0].Amount.BigInt().Cmp(forward) != 0:
			return fmt.Sprintf("Amount %s, want %s%s", m.Amount, forward, denom)
		}
	default:
		return fmt.Sprintf("unexpected request type %T", c.Obj)
	}
	return ""
}

// genC05Spec draws a spec whose route parameters vary over all attribute fields.
func genC05Spec(e *fw.Env, l *Lab) (run.Transfer, string) {
	// mostly calibrated destinations; one in four cases draws hostile attribute values (odd
	// caller / recipient lengths, unknown hooks, ...): whatever the outcome, IF the transfer is
	// executed the request must carry exactly the payload's parameters
	bias := 100
	if e.R.Intn(4) == 0 {
		bias = 0
	}
	t, hs := genHostile(e.R, l, bias)
	t.Receiver = OrbiterReceiver()
	if t.Spec.HasFee && model.Fees(bi(t.Amount), t.Spec.Fees).Verdict != model.MustSucceed {
		t.Spec.HasFee, t.Spec.Fees = false, nil
	}
	r := &t.Spec.Route
	if r.Kind == "cctp" && e.R.Intn(5) == 0 {
		// destination callers of every length
		r.Caller = make([]byte, []int{1, 20, 31, 33, 64}[e.R.Intn(5)])
		e.R.Read(r.Caller)
		r.Caller[0] |= 1
	}
	if r.Kind == "hyp" && hs.ValidDest {
		// vary every optional parameter while staying on calibrated ground
		switch e.R.Intn(4) {
		case 0:
			r.HookID = l.W.Hyp.NoopHook.Bytes()
		case 1:
			r.HookID = l.W.Hyp.MerkleHook.Bytes()
		}
		gl := fmt.Sprint(e.R.Intn(1_000_000))
		r.GasLimit = &gl
		r.MaxFee = &spec.Coin{Denom: []string{world.USDN, world.USDC, world.STAKE}[e.R.Intn(3)], Amount: fmt.Sprint(e.R.Intn(1000))}
		if e.R.Intn(2) == 0 {
			r.Metadata = "0x" + fmt.Sprintf("%x", e.R.Uint64())
		}
	}
	return t, hs.RouteCls + "|" + hs.FeeCls
}

// CheckC05 compares the request recorded at the bridge boundary with the payload.
func CheckC05(e *fw.Env, l *Lab) {
	w := l.W
	st, err := altstack.New(w, altstack.Options{})
	if err != nil {
		e.Res.Inconc("alternative stack: %v", err)
		return
	}
	mode := run.Mode{Kind: "C", Mod: st.Module}
	native := run.Mode{Kind: "H"}
	n := e.N(4000, 100000)
	for i := 0; i < n; i++ {
		t, cls := genC05Spec(e, l)
		a := bi(t.Amount)
		forward := a
		if t.Spec.HasFee {
			fr := model.Fees(a, t.Spec.Fees)
			if fr.Forward == nil {
				continue
			}
			forward = fr.Forward
		}
		e.Log(map[string]any{"transfer": t})
		st.Rec.Reset(nil)
		ctx, _ := l.Base.CacheContext()
		o := run.Do(w, ctx, t, mode)
		e.Res.Eval()
		Universal(e.Res, o)
		wtn := map[string]any{"transfer": t, "outcome": o.Res.String(), "calls": st.Rec.Calls}
		var bridge []altstack.Call
		for _, c := range st.Rec.Calls {
			for _, s := range bridgeSites {
				if c.Site == s {
					bridge = append(bridge, c)
				}
			}
		}
		if !o.Success() {
			e.Res.Count("alt:refused")
			continue
		}
		if len(bridge) != 1 {
			e.Res.Violate(fw.Violation{Property: "C05", Kind: "not-exactly-one-bridge-call", Detail: fmt.Sprintf("%d bridge calls on a successful transfer", len(bridge)), Witness: wtn})
			continue
		}
		if diff := compareRequest(bridge[0], t.Spec, t.Denom, forward); diff != "" {
			e.Res.Violate(fw.Violation{Property: "C05", Kind: "bridge-request-differs-from-payload", Tags: map[string]string{"route": t.Spec.Route.Kind},
				Detail: "request recorded at " + bridge[0].Site + ": " + diff, Witness: wtn})
			continue
		}
		e.Res.Sig("alt|%s|%s", bridge[0].Site, cls)
		// the same packet on the native wiring: typed events must tell the same story
		ctx, _ = l.Base.CacheContext()
		on := run.Do(w, ctx, t, native)
		e.Res.Eval()
		Universal(e.Res, on)
		if !on.Success() {
			e.Res.Violate(fw.Violation{Property: "C05", Kind: "native-and-alternative-wiring-disagree", Detail: "alternative stack succeeded, native wiring: " + on.Res.String(), Witness: wtn})
			continue
		}
		if diff := compareEvents(on, t.Spec, t.Denom, forward); diff != "" {
			e.Res.Violate(fw.Violation{Property: "C05", Kind: "bridge-events-differ-from-payload", Tags: map[string]string{"route": t.Spec.Route.Kind},
				Detail: diff, Witness: map[string]any{"transfer": t, "bridge_events": on.Bridge}})
			continue
		}
		e.Res.Sig("native|%s|%s", t.Spec.Route.Kind, cls)
		if i < 2 {
			e.Res.Sample(map[string]any{"transfer": t, "recorded_request": bridge[0].Req, "native_bridge_events": on.Bridge})
		}
	}
	if e.Shard == 0 || e.Thorough() {
		checkMismatchedPairs(e, l)
	}
	checkReplace(e, l, st)
}

func b64d(s string) []byte {
	b, _ := base64.StdEncoding.DecodeString(s)
	return b
}

// compareEvents checks what the bridges' own typed events expose.
func compareEvents(o *run.Obs, s *spec.Spec, denom string, forward *big.Int) string {
	orb := world.OrbiterAddr().String()
	var cctp, hyp []run.BridgeCall
	for _, b := range o.Bridge {
		switch b.Kind {
		case "cctp":
			cctp = append(cctp, b)
		case "hyp":
			hyp = append(hyp, b)
		}
	}
	r := s.Route
	switch r.Kind {
	case "cctp":
		if len(cctp) != 1 || len(hyp) != 0 {
			return fmt.Sprintf("%d CCTP and %d Hyperlane events", len(cctp), len(hyp))
		}
		f := cctp[0].Fields
		switch {
		case f["amount"] != forward.String():
			return "DepositForBurn.amount " + f["amount"]
		case f["depositor"] != orb:
			return "DepositForBurn.depositor " + f["depositor"]
		case f["destination_domain"] != fmt.Sprint(r.Domain):
			return "DepositForBurn.destination_domain " + f["destination_domain"]
		case !bytes.Equal(b64d(f["mint_recipient"]), r.MintRecipient):
			return "DepositForBurn.mint_recipient differs"
		case !bytes.Equal(b64d(f["destination_caller"]), r.Caller):
			return "DepositForBurn.destination_caller differs"
		}
	case "hyp":
		if len(hyp) != 1 || len(cctp) != 0 {
			return fmt.Sprintf("%d CCTP and %d Hyperlane events", len(cctp), len(hyp))
		}
		f := hyp[0].Fields
		switch {
		case f["sender"] != orb:
			return "EventSendRemoteTransfer.sender " + f["sender"]
		case f["destination_domain"] != fmt.Sprint(r.Domain):
			return "EventSendRemoteTransfer.destination_domain " + f["destination_domain"]
		case f["amount"] != forward.String()+denom:
			return "EventSendRemoteTransfer.amount " + f["amount"]
		case !strings.EqualFold(strings.TrimPrefix(f["recipient"], "0x"), fmt.Sprintf("%x", r.Recipient)):
			return "EventSendRemoteTransfer.recipient " + f["recipient"]
		case !strings.EqualFold(strings.TrimPrefix(f["token_id"], "0x"), fmt.Sprintf("%x", r.TokenID)):
			return "EventSendRemoteTransfer.token_id " + f["token_id"]
		}
	case "internal":
		if len(hyp) != 0 || len(cctp) != 0 {
			return "bridge events on an internal route"
		}
		// the credit of the recipient is part of the exact full-ledger comparison (universal
		// C02 monitor), which also handles recipients that coincide with other parties
	}
	return ""
}

// checkMismatchedPairs: every (protocol id, attribute type) combination and ids without controller.
func checkMismatchedPairs(e *fw.Env, l *Lab) {
	w := l.W
	mint := make([]byte, 32)
	mint[31] = 3
	zero := "0"
	attrs := map[string]spec.Route{
		"cctp":     {Kind: "cctp", Domain: 0, MintRecipient: mint},
		"hyp":      {Kind: "hyp", Domain: 1, TokenID: w.Hyp.TokenUSDC.Bytes(), Recipient: mint, GasLimit: &zero, MaxFee: &spec.Coin{Denom: world.USDN, Amount: "0"}},
		"internal": {Kind: "internal", To: w.K("rcpt1").String()},
	}
	own := map[string]string{"cctp": "PROTOCOL_CCTP", "hyp": "PROTOCOL_HYPERLANE", "internal": "PROTOCOL_INTERNAL"}
	ids := []string{"PROTOCOL_UNSUPPORTED", "PROTOCOL_IBC", "PROTOCOL_CCTP", "PROTOCOL_HYPERLANE", "PROTOCOL_INTERNAL"}
	for kind, rt := range attrs {
		for _, id := range ids {
			r := rt
			r.ProtocolOverride = id
			t := l.NewTransfer(e.R, world.USDC, big.NewInt(1_000_000), &spec.Spec{Route: r})
			ctx, _ := l.Base.CacheContext()
			o := run.Do(w, ctx, t, run.Mode{Kind: "H"})
			e.Res.Eval()
			MonPanic(e.Res, o)
			MonC01(e.Res, o)
			match := id == own[kind]
			wtn := map[string]any{"protocol_id": id, "attribute_type": kind, "outcome": o.Res.String(), "delta": o.Delta.String()}
			switch {
			case !match && o.Success():
				e.Res.Violate(fw.Violation{Property: "C05", Kind: "mismatched-protocol-and-attributes-accepted", Tags: map[string]string{"id": id, "attrs": kind},
					Detail: fmt.Sprintf("payload with protocol id %s and %s attributes was executed", id, kind), Witness: wtn})
			case match && !o.Success():
				e.Res.Violate(fw.Violation{Property: "C05", Kind: "matching-protocol-and-attributes-refused", Detail: o.Res.String(), Witness: wtn})
			}
			e.Res.Sig("pair|%s|%s|%s", id, kind, outcomeClass(o))
		}
		// numeric identifiers incl. out of range
		for _, num := range []string{"0", "1", "2", "3", "4", "5", "99", "-1", "2147483647"} {
			memo := strings.Replace((&spec.Spec{Route: rt}).Memo(), `"protocol_id":"`+own[kind]+`"`, `"protocol_id":`+num, 1)
			t := l.NewTransfer(e.R, world.USDC, big.NewInt(1_000_000), nil)
			t.Memo = memo
			ctx, _ := l.Base.CacheContext()
			o := run.Do(w, ctx, t, run.Mode{Kind: "H"})
			e.Res.Eval()
			MonPanic(e.Res, o)
			MonC01(e.Res, o)
			match := fmt.Sprint(rt.ProtocolNum()) == num
			if !match && o.Success() {
				e.Res.Violate(fw.Violation{Property: "C05", Kind: "mismatched-protocol-and-attributes-accepted", Tags: map[string]string{"id": num, "attrs": kind},
					Detail: fmt.Sprintf("payload with numeric protocol id %s and %s attributes was executed", num, kind), Witness: map[string]any{"memo": memo}})
			}
			if match && !o.Success() {
				e.Res.Violate(fw.Violation{Property: "C05", Kind: "matching-protocol-and-attributes-refused", Detail: "numeric id " + num + ": " + o.Res.String()})
			}
			e.Res.Sig("pairnum|%s|%s|%s", num, kind, outcomeClass(o))
		}
	}
	// action identifiers without controller (swap, unsupported, out of range) with fee attributes
	feeAttrs := fmt.Sprintf(`{"@type":%q,"fees_info":[{"recipient":%q,"basis_points":{"value":10}}]}`, spec.TypeFee, w.K("fee1").String())
	for _, id := range []string{`"ACTION_SWAP"`, `"ACTION_UNSUPPORTED"`, `2`, `0`, `3`, `99`, `-1`, `"ACTION_FEE"`, `1`} {
		memo := fmt.Sprintf(`{"orbiter":{"pre_actions":[{"id":%s,"attributes":%s}],"forwarding":{"protocol_id":"PROTOCOL_INTERNAL","attributes":%s}}}`,
			id, feeAttrs, attrs["internal"].AttributesJSON())
		t := l.NewTransfer(e.R, world.USDC, big.NewInt(1_000_000), nil)
		t.Memo = memo
		ctx, _ := l.Base.CacheContext()
		o := run.Do(w, ctx, t, run.Mode{Kind: "H"})
		e.Res.Eval()
		MonPanic(e.Res, o)
		MonC01(e.Res, o)
		has := id == `"ACTION_FEE"` || id == `1`
		if !has && o.Success() {
			e.Res.Violate(fw.Violation{Property: "C05", Kind: "action-without-controller-accepted", Tags: map[string]string{"id": id},
				Detail: "payload naming action " + id + " (no controller) was executed", Witness: map[string]any{"memo": memo, "delta": o.Delta.String()}})
		}
		if has && !o.Success() {
			e.Res.Violate(fw.Violation{Property: "C05", Kind: "matching-protocol-and-attributes-refused", Detail: "fee action id " + id + ": " + o.Res.String()})
		}
		e.Res.Sig("action-id|%s|%s", id, outcomeClass(o))
	}
}

// checkReplace: the deposit-replacement message reaches CCTP with exactly its fields.
func checkReplace(e *fw.Env, l *Lab, st *altstack.Stack) {
	w := l.W
	ms := forwardercomp.NewMsgServer(st.Keeper.Forwarder(), st.Keeper)
	n := e.N(200, 5000)
	orb := world.OrbiterAddr().String()
	for i := 0; i < n; i++ {
		ctx, _ := l.Base.CacheContext()
		m := &forwardertypes.MsgReplaceDepositForBurn{Signer: w.Authority.String()}
		real := i%4 == 0
		if real {
			msg, att, _, err := CCTPDeposit(l, ctx, e.R, e.R.Intn(2) == 0)
			if err != nil {
				e.Res.Inconc("deposit: %v", err)
				return
			}
			m.OriginalMessage, m.OriginalAttestation = msg, att
			m.NewMintRecipient, m.NewDestinationCaller = evmAddr32(e.R), evmAddr32(e.R)
		} else {
			m.OriginalMessage = make([]byte, e.R.Intn(300))
			e.R.Read(m.OriginalMessage)
			m.OriginalAttestation = make([]byte, e.R.Intn(130))
			e.R.Read(m.OriginalAttestation)
			m.NewMintRecipient = make([]byte, e.R.Intn(40))
			e.R.Read(m.NewMintRecipient)
			m.NewDestinationCaller = make([]byte, e.R.Intn(40))
			e.R.Read(m.NewDestinationCaller)
		}
		st.Rec.Reset(nil)
		branch, _ := ctx.CacheContext()
		_, err := ms.ReplaceDepositForBurn(branch, m)
		e.Res.Eval()
		calls := st.Rec.BySite("cctp.ReplaceDepositForBurn")
		wtn := map[string]any{"message": fmt.Sprint(m), "calls": st.Rec.Calls, "error": fmt.Sprint(err)}
		if len(calls) != 1 {
			e.Res.Violate(fw.Violation{Property: "C05", Kind: "replace-not-forwarded-exactly-once", Detail: fmt.Sprintf("%d calls", len(calls)), Witness: wtn})
			continue
		}
		got := calls[0].Obj.(*cctptypes.MsgReplaceDepositForBurn)
		if got.From != orb || !bytes.Equal(got.OriginalMessage, m.OriginalMessage) || !bytes.Equal(got.OriginalAttestation, m.OriginalAttestation) ||
			!bytes.Equal(got.NewDestinationCaller, m.NewDestinationCaller) || !bytes.Equal(got.NewMintRecipient, m.NewMintRecipient) {
			e.Res.Violate(fw.Violation{Property: "C05", Kind: "replace-request-differs-from-message", Detail: "fields altered or From != orbiter: " + calls[0].Req, Witness: wtn})
			continue
		}
		if real && err != nil {
			e.Res.Violate(fw.Violation{Property: "C05", Kind: "valid-replace-refused", Detail: err.Error(), Witness: wtn})
			continue
		}
		e.Res.Sig("replace|real=%v|err=%v", real, err != nil)
		if real {
			// native wiring: the real message handler must succeed and emit CCTP's event with the new values
			hr := w.Handle(ctx, m)
			e.Res.Eval()
			if hr.Err != nil {
				e.Res.Violate(fw.Violation{Property: "C05", Kind: "valid-replace-refused", Tags: map[string]string{"wiring": "native"}, Detail: hr.Err.Error(), Witness: wtn})
				continue
			}
			ok := false
			for _, b := range run.BridgeCalls(hr.Events) {
				if b.Kind == "cctp" && bytes.Equal(b64d(b.Fields["mint_recipient"]), m.NewMintRecipient) &&
					bytes.Equal(b64d(b.Fields["destination_caller"]), m.NewDestinationCaller) && b.Fields["depositor"] == orb {
					ok = true
				}
			}
			if !ok {
				e.Res.Violate(fw.Violation{Property: "C05", Kind: "replace-event-differs-from-message", Detail: fmt.Sprint(run.BridgeCalls(hr.Events)), Witness: wtn})
				continue
			}
			e.Res.Sig("replace-native|ok")
		}
	}
}
