package checks

import (
	"encoding/json"
	"fmt"
	"math/big"
	"math/rand"
	"sort"
	"strings"

	sdk "github.com/cosmos/cosmos-sdk/types"
	"github.com/cosmos/cosmos-sdk/types/query"

	executorcomp "github.com/noble-assets/orbiter/v2/keeper/component/executor"
	forwardercomp "github.com/noble-assets/orbiter/v2/keeper/component/forwarder"
	executortypes "github.com/noble-assets/orbiter/v2/types/component/executor"
	forwardertypes "github.com/noble-assets/orbiter/v2/types/component/forwarder"
	"github.com/noble-assets/orbiter/v2/types/core"

	"orbverif/fw"
	"orbverif/run"
	"orbverif/spec"
	"orbverif/world"
)

// PauseModel is the reference model of the three pause sets.
type PauseModel struct {
	Protocols map[int32]bool
	Cross     map[string]bool // "proto|cp"
	Actions   map[int32]bool
}

func NewPauseModel() *PauseModel {
	return &PauseModel{Protocols: map[int32]bool{}, Cross: map[string]bool{}, Actions: map[int32]bool{}}
}

var protoByName = map[string]int32{"PROTOCOL_IBC": 1, "PROTOCOL_CCTP": 2, "PROTOCOL_HYPERLANE": 3, "PROTOCOL_INTERNAL": 4}
var actionByName = map[string]int32{"ACTION_FEE": 1, "ACTION_SWAP": 2}

// counterparty pools: canonical valid ids and clearly invalid ones per protocol.
var cpValid = map[int32][]string{
	1: {"channel-0", "channel-1", "channel-7", "channel-4294967295"},
	2: {"0", "2", "5", "7", "4294967295", "1"},
	3: {"1", "10", "42161", "7", "4294967295", "8453"},
	4: {"noble", "x", "anything goes", "noble2"},
}
var cpInvalid = map[int32][]string{
	1: {"", "channel", "channel-", "x", "connection-0", strings.Repeat("9", 33)},
	2: {"", "x", "1.5", "0x1", strings.Repeat("1", 33), "channel-0"},
	3: {"", "abc", "1e3", strings.Repeat("2", 40)},
	4: {"", strings.Repeat("n", 33)},
}

// AdminMsg is one generated admin message with the model's expectation.
type AdminMsg struct {
	Kind   string   `json:"kind"`
	Proto  string   `json:"proto,omitempty"`
	IDs    []string `json:"ids,omitempty"`
	Action string   `json:"action,omitempty"`
	Signer string   `json:"signer"`
	// Expect: "ok", "fail", "either"
	Expect string `json:"expect"`
	Why    string `json:"why,omitempty"`
}

func (m AdminMsg) SDK() sdk.Msg {
	switch m.Kind {
	case "pause-protocol":
		return &forwardertypes.MsgPauseProtocol{Signer: m.Signer, ProtocolId: m.Proto}
	case "unpause-protocol":
		return &forwardertypes.MsgUnpauseProtocol{Signer: m.Signer, ProtocolId: m.Proto}
	case "pause-cc":
		return &forwardertypes.MsgPauseCrossChains{Signer: m.Signer, ProtocolId: m.Proto, CounterpartyIds: m.IDs}
	case "unpause-cc":
		return &forwardertypes.MsgUnpauseCrossChains{Signer: m.Signer, ProtocolId: m.Proto, CounterpartyIds: m.IDs}
	case "pause-action":
		return &executortypes.MsgPauseAction{Signer: m.Signer, ActionId: m.Action}
	case "unpause-action":
		return &executortypes.MsgUnpauseAction{Signer: m.Signer, ActionId: m.Action}
	}
	panic("bad kind " + m.Kind)
}

func genProtoName(r *rand.Rand) (string, bool) {
	if r.Intn(10) == 0 {
		return []string{"PROTOCOL_UNSUPPORTED", "", "X", "2", "protocol_cctp", "PROTOCOL_SWAP", "ACTION_FEE"}[r.Intn(7)], false
	}
	return ProtoName[int32(1+r.Intn(4))], true
}

// GenForwarderMsg draws a forwarder admin message and computes the model's expectation.
func GenForwarderMsg(r *rand.Rand, w *world.World, pm *PauseModel) AdminMsg {
	m := AdminMsg{Signer: w.Authority.String()}
	unauthorized := r.Intn(12) == 0
	if unauthorized {
		m.Signer = w.K("carol").String()
	}
	name, valid := genProtoName(r)
	m.Proto = name
	p := protoByName[name]
	switch r.Intn(4) {
	case 0:
		m.Kind = "pause-protocol"
		switch {
		case unauthorized:
			m.Expect, m.Why = "fail", "unauthorized"
		case !valid:
			m.Expect, m.Why = "fail", "invalid protocol"
		case pm.Protocols[p]:
			m.Expect, m.Why = "fail", "redundant"
		default:
			m.Expect = "ok"
		}
	case 1:
		m.Kind = "unpause-protocol"
		switch {
		case unauthorized:
			m.Expect, m.Why = "fail", "unauthorized"
		case !valid:
			m.Expect, m.Why = "fail", "invalid protocol"
		case !pm.Protocols[p]:
			m.Expect, m.Why = "fail", "redundant"
		default:
			m.Expect = "ok"
		}
	default:
		pause := r.Intn(2) == 0
		m.Kind = "unpause-cc"
		if pause {
			m.Kind = "pause-cc"
		}
		if !valid {
			p = int32(1 + r.Intn(4))
		}
		// batch
		var n int
		switch r.Intn(12) {
		case 0:
			n = 0
		case 1:
			n = 100
		case 2:
			n = 101
		default:
			n = 1 + r.Intn(4)
		}
		anyInvalid, dup := false, false
		seen := map[string]bool{}
		// for unpause, prefer currently paused ids
		var pausedNow []string
		for k := range pm.Cross {
			if strings.HasPrefix(k, fmt.Sprintf("%d|", p)) {
				pausedNow = append(pausedNow, k[strings.Index(k, "|")+1:])
			}
		}
		sort.Strings(pausedNow)
		for i := 0; i < n; i++ {
			var id string
			switch {
			case n >= 100:
				if p == 4 {
					id = fmt.Sprintf("bulk-%d", i)
				} else if p == 1 {
					id = fmt.Sprintf("channel-%d", 1000+i)
				} else {
					id = fmt.Sprintf("%d", 1000+i)
				}
			case r.Intn(15) == 0:
				id = cpInvalid[p][r.Intn(len(cpInvalid[p]))]
				anyInvalid = true
			case !pause && len(pausedNow) > 0 && r.Intn(4) != 0:
				id = pausedNow[r.Intn(len(pausedNow))]
			default:
				id = cpValid[p][r.Intn(len(cpValid[p]))]
			}
			if seen[id] {
				dup = true
			}
			seen[id] = true
			m.IDs = append(m.IDs, id)
		}
		redundant := false
		for _, id := range m.IDs {
			if pm.Cross[fmt.Sprintf("%d|%s", p, id)] == pause {
				redundant = true
			}
		}
		switch {
		case unauthorized:
			m.Expect, m.Why = "fail", "unauthorized"
		case !valid:
			m.Expect, m.Why = "fail", "invalid protocol"
		case n > 100:
			m.Expect, m.Why = "fail", "more than 100 ids"
		case n == 0:
			m.Expect, m.Why = "either", "empty batch"
		case anyInvalid:
			m.Expect, m.Why = "fail", "invalid counterparty id"
		case dup:
			m.Expect, m.Why = "fail", "duplicate id in batch"
		case redundant:
			m.Expect, m.Why = "fail", "redundant member"
		default:
			m.Expect = "ok"
		}
	}
	return m
}

// Apply updates the model for a message that must be applied.
func (pm *PauseModel) Apply(m AdminMsg) {
	p := protoByName[m.Proto]
	switch m.Kind {
	case "pause-protocol":
		pm.Protocols[p] = true
	case "unpause-protocol":
		delete(pm.Protocols, p)
	case "pause-cc":
		for _, id := range m.IDs {
			pm.Cross[fmt.Sprintf("%d|%s", p, id)] = true
		}
	case "unpause-cc":
		for _, id := range m.IDs {
			delete(pm.Cross, fmt.Sprintf("%d|%s", p, id))
		}
	case "pause-action":
		pm.Actions[actionByName[m.Action]] = true
	case "unpause-action":
		delete(pm.Actions, actionByName[m.Action])
	}
}

// readPauseState reads the three sets through the query services.
func readPauseState(w *world.World, ctx sdk.Context, pageLimit uint64) (*PauseModel, error) {
	out := NewPauseModel()
	fq := forwardercomp.NewQueryServer(w.App.OrbiterKeeper.Forwarder())
	eq := executorcomp.NewQueryServer(w.App.OrbiterKeeper.Executor())
	pp, err := fq.PausedProtocols(ctx, &forwardertypes.QueryPausedProtocolsRequest{})
	if err != nil {
		return nil, err
	}
	for _, p := range pp.ProtocolIds {
		out.Protocols[int32(p)] = true
	}
	for p := int32(1); p <= 4; p++ {
		var key []byte
		for {
			resp, err := fq.PausedCrossChains(ctx, &forwardertypes.QueryPausedCrossChainsRequest{
				ProtocolId: ProtoName[p], Pagination: &query.PageRequest{Key: key, Limit: pageLimit}})
			if err != nil {
				return nil, err
			}
			for _, id := range resp.CounterpartyIds {
				k := fmt.Sprintf("%d|%s", p, id)
				if out.Cross[k] {
					return nil, fmt.Errorf("pagination returned %s twice", k)
				}
				out.Cross[k] = true
			}
			if resp.Pagination == nil || len(resp.Pagination.NextKey) == 0 {
				break
			}
			key = resp.Pagination.NextKey
		}
	}
	pa, err := eq.PausedActions(ctx, &executortypes.QueryPausedActionsRequest{})
	if err != nil {
		return nil, err
	}
	for _, a := range pa.ActionIds {
		out.Actions[int32(a)] = true
	}
	return out, nil
}

func (pm *PauseModel) String() string {
	var s []string
	for p := range pm.Protocols {
		s = append(s, fmt.Sprintf("P%d", p))
	}
	for k := range pm.Cross {
		s = append(s, "X"+k)
	}
	for a := range pm.Actions {
		s = append(s, fmt.Sprintf("A%d", a))
	}
	sort.Strings(s)
	return strings.Join(s, ",")
}

// comparePauseState checks queries and exported genesis against the model.
func comparePauseState(res *fw.Result, prop string, w *world.World, ctx sdk.Context, pm *PauseModel, r *rand.Rand, hist any) bool {
	limit := uint64(1 + r.Intn(7))
	if r.Intn(4) == 0 {
		limit = 1000
	}
	got, err := readPauseState(w, ctx, limit)
	if err != nil {
		res.Violate(fw.Violation{Property: prop, Kind: "pause-query-failed", Detail: err.Error(), Witness: hist})
		return false
	}
	if got.String() != pm.String() {
		res.Violate(fw.Violation{Property: prop, Kind: "pause-queries-differ-from-model",
			Detail: fmt.Sprintf("queries report {%s}, model {%s}", got, pm), Witness: hist})
		return false
	}
	// point queries
	fq := forwardercomp.NewQueryServer(w.App.OrbiterKeeper.Forwarder())
	for p := int32(1); p <= 4; p++ {
		resp, err := fq.IsProtocolPaused(ctx, &forwardertypes.QueryIsProtocolPausedRequest{ProtocolId: ProtoName[p]})
		if err != nil || resp.IsPaused != pm.Protocols[p] {
			res.Violate(fw.Violation{Property: prop, Kind: "is-protocol-paused-differs", Detail: fmt.Sprintf("protocol %d: %v %v", p, resp, err), Witness: hist})
			return false
		}
		for _, id := range cpValid[p] {
			resp, err := fq.IsCrossChainPaused(ctx, &forwardertypes.QueryIsCrossChainPausedRequest{ProtocolId: ProtoName[p], CounterpartyId: id})
			if err != nil || resp.IsPaused != pm.Cross[fmt.Sprintf("%d|%s", p, id)] {
				res.Violate(fw.Violation{Property: prop, Kind: "is-cross-chain-paused-differs", Detail: fmt.Sprintf("%d|%s: %v %v", p, id, resp, err), Witness: hist})
				return false
			}
		}
	}
	eq := executorcomp.NewQueryServer(w.App.OrbiterKeeper.Executor())
	for name, a := range actionByName {
		resp, err := eq.IsActionPaused(ctx, &executortypes.QueryIsActionPausedRequest{ActionId: name})
		if err != nil || resp.IsPaused != pm.Actions[a] {
			res.Violate(fw.Violation{Property: prop, Kind: "is-action-paused-differs", Detail: fmt.Sprintf("%s: %v %v", name, resp, err), Witness: hist})
			return false
		}
	}
	// exported genesis
	g := w.App.OrbiterKeeper.ExportGenesis(ctx)
	ex := NewPauseModel()
	for _, p := range g.ForwarderGenesis.PausedProtocolIds {
		ex.Protocols[int32(p)] = true
	}
	for _, c := range g.ForwarderGenesis.PausedCrossChainIds {
		ex.Cross[fmt.Sprintf("%d|%s", int32(c.ProtocolId), c.CounterpartyId)] = true
	}
	for _, a := range g.ExecutorGenesis.PausedActionIds {
		ex.Actions[int32(a)] = true
	}
	if ex.String() != pm.String() {
		res.Violate(fw.Violation{Property: prop, Kind: "exported-pause-sets-differ-from-model", Detail: fmt.Sprintf("export {%s}, model {%s}", ex, pm), Witness: hist})
		return false
	}
	return true
}

// probeSet is one probe per distinct (protocol, counterparty, denom) of the calibrated set.
func (l *Lab) probeSet() []Dest {
	seen := map[string]bool{}
	var out []Dest
	for _, d := range l.Dests {
		k := fmt.Sprintf("%d|%s", d.Proto, d.Cp)
		if d.Denom == world.BIG || seen[k] {
			continue
		}
		seen[k] = true
		out = append(out, d)
	}
	return out
}

// probeForwarding fires one transfer per probe destination on discarded branches and compares
// success with the pause model.
func probeForwarding(e *fw.Env, prop string, l *Lab, ctx sdk.Context, pm *PauseModel, withFee bool, hist any) {
	for _, d := range l.probeSet() {
		s := &spec.Spec{Route: d.Make(e.R)}
		if withFee {
			s.HasFee = true
			s.Fees = []spec.Fee{{Recipient: l.W.K("fee1").String(), IsBPS: true, BPS: 100}}
		}
		t := l.NewTransfer(e.R, d.Denom, big.NewInt(1_000_000), s)
		branch, _ := ctx.CacheContext()
		o := run.Do(l.W, branch, t, run.Mode{Kind: "H"})
		e.Res.Eval()
		Universal(e.Res, o)
		paused := pm.Protocols[d.Proto] || pm.Cross[fmt.Sprintf("%d|%s", d.Proto, d.Cp)]
		if withFee && pm.Actions[1] {
			paused = true
		}
		wtn := map[string]any{"history": hist, "probe": t, "outcome": o.Res.String(), "model_state": pm.String()}
		switch {
		case o.Res.Panic != nil || o.Res.Err != nil || o.Res.Ack == nil:
			e.Res.Inconc("probe did not produce an acknowledgement: %s", o.Res.String())
		case paused && o.Success():
			kind := "paused-destination-forwarded"
			if withFee && pm.Actions[1] && !(pm.Protocols[d.Proto] || pm.Cross[fmt.Sprintf("%d|%s", d.Proto, d.Cp)]) {
				kind = "paused-action-executed"
			}
			e.Res.Violate(fw.Violation{Property: prop, Kind: kind, Tags: map[string]string{"proto": fmt.Sprint(d.Proto)},
				Detail: fmt.Sprintf("transfer to %s executed while paused (model state {%s})", d.Name, pm), Witness: wtn})
		case !paused && !o.Success():
			e.Res.Violate(fw.Violation{Property: prop, Kind: "unpaused-destination-refused", Tags: map[string]string{"proto": fmt.Sprint(d.Proto)},
				Detail: fmt.Sprintf("transfer to %s refused although nothing relevant is paused (model state {%s}): %s", d.Name, pm, o.Res.AckErr), Witness: wtn})
		}
		if paused {
			e.Res.Sig("probe|%s|fee=%v|paused|%s", d.Name, withFee, outcomeClass(o))
			if !o.Success() && (len(o.Delta.Bal) != 0 || len(run.StatsDelta(o.StatsBefore, o.StatsAfter)) != 0) {
				e.Res.Violate(fw.Violation{Property: prop, Kind: "refused-probe-left-effects", Detail: "ledger or statistics changed by a refused transfer: " + o.Delta.String(), Witness: wtn})
			}
		} else {
			e.Res.Sig("probe|%s|fee=%v|open|%s", d.Name, withFee, outcomeClass(o))
		}
	}
}

// probeActionEdgesC09: the pause applies to the action, whatever its content: a fee action
// without entries (a valid no-op) is refused while ACTION_FEE is paused; a payload naming an
// action for which the application wires no controller (ACTION_SWAP) is never executed, paused
// or not.
func probeActionEdgesC09(e *fw.Env, l *Lab, ctx sdk.Context, pm *PauseModel, hist any) {
	w := l.W
	rt := spec.Route{Kind: "internal", To: w.K("rcpt1").String()}
	routePaused := pm.Protocols[4] || pm.Cross["4|noble"]
	feePaused := pm.Actions[1]
	type probe struct {
		name, memo string
	}
	probes := []probe{
		{"fee-action-without-entries", actionsMemo([]string{"fee"}, [][]spec.Fee{{}}, rt)},
		{"swap-action", actionsMemo([]string{"swap"}, nil, rt)},
		{"fee-then-swap-action", actionsMemo([]string{"fee", "swap"}, [][]spec.Fee{{{Recipient: w.K("fee1").String(), IsBPS: true, BPS: 100}}}, rt)},
	}
	for _, p := range probes {
		t := l.NewTransfer(e.R, world.USDC, big.NewInt(1_000_000), nil)
		t.Memo = p.memo
		branch, _ := ctx.CacheContext()
		o := run.Do(w, branch, t, run.Mode{Kind: "H"})
		e.Res.Eval()
		MonPanic(e.Res, o)
		MonC01(e.Res, o)
		if o.Res.Panic != nil || o.Res.Err != nil || o.Res.Ack == nil {
			continue
		}
		wtn := map[string]any{"history": hist, "probe": p.name, "memo": p.memo, "outcome": o.Res.String(), "model_state": pm.String()}
		switch p.name {
		case "fee-action-without-entries":
			// what an open chain does with it is not this property's business (it is refused or a
			// no-op); with ACTION_FEE paused it must be refused
			if feePaused && o.Success() {
				e.Res.Violate(fw.Violation{Property: "C09", Kind: "paused-action-executed", Tags: map[string]string{"probe": p.name},
					Detail: "a payload with a fee action (no entries) is forwarded while ACTION_FEE is paused", Witness: wtn})
			}
		default:
			// (if an application does wire a controller for the action, only the pause is judged)
			if o.Success() && w.App.OrbiterKeeper.Executor().Router().HasRoute(core.ACTION_SWAP) {
				if pm.Actions[2] {
					e.Res.Violate(fw.Violation{Property: "C09", Kind: "paused-action-executed", Tags: map[string]string{"probe": p.name},
						Detail: "a payload containing ACTION_SWAP is forwarded while ACTION_SWAP is paused", Witness: wtn})
				}
			} else if o.Success() {
				e.Res.Violate(fw.Violation{Property: "C09", Kind: "action-without-controller-skipped", Tags: map[string]string{"probe": p.name},
					Detail: fmt.Sprintf("a payload containing ACTION_SWAP (no controller in this application; paused=%v) is acknowledged as successful", pm.Actions[2]), Witness: wtn})
			}
		}
		e.Res.Sig("action-edge|%s|fee-paused=%v|swap-paused=%v|route-paused=%v|%s", p.name, feePaused, pm.Actions[2], routePaused, outcomeClass(o))
	}
}

// runAdmin executes one admin message on ctx (mode H) and checks response and state against the
// model; it returns false when the walk should stop (model out of sync).
func runAdmin(e *fw.Env, prop string, l *Lab, ctx sdk.Context, pm *PauseModel, m AdminMsg, hist *[]AdminMsg) bool {
	w := l.W
	*hist = append(*hist, m)
	trail := *hist
	if len(trail) > 40 {
		trail = trail[len(trail)-40:]
	}
	before := w.StoreDigest(ctx)["orbiter"]
	hr := w.Handle(ctx, m.SDK())
	e.Res.Eval()
	if hr.Panic != nil {
		e.Res.Violate(fw.Violation{Property: prop, Kind: "admin-message-panicked", Detail: fmt.Sprint(hr.Panic), Witness: trail})
		return false
	}
	ok := hr.Err == nil
	e.Res.Count("admin:" + m.Kind + ":" + m.Expect + ":" + map[bool]string{true: "ok", false: "err"}[ok])
	switch m.Expect {
	case "ok":
		if !ok {
			e.Res.Violate(fw.Violation{Property: prop, Kind: "valid-admin-message-refused", Tags: map[string]string{"msg": m.Kind},
				Detail: fmt.Sprintf("%s refused: %v", m.Kind, hr.Err), Witness: trail})
			return false
		}
		pm.Apply(m)
	case "fail":
		if ok {
			e.Res.Violate(fw.Violation{Property: prop, Kind: "invalid-admin-message-accepted", Tags: map[string]string{"msg": m.Kind, "why": m.Why},
				Detail: fmt.Sprintf("%s succeeded although the model refuses it (%s)", m.Kind, m.Why), Witness: trail})
			return false
		}
		if after := w.StoreDigest(ctx)["orbiter"]; after != before {
			e.Res.Violate(fw.Violation{Property: prop, Kind: "failed-message-changed-state", Tags: map[string]string{"msg": m.Kind},
				Detail: "orbiter store changed by a failed message", Witness: trail})
			return false
		}
	default: // either: resync the model from the queries
		got, err := readPauseState(w, ctx, 1000)
		if err != nil {
			e.Res.Inconc("resync failed: %v", err)
			return false
		}
		*pm = *got
	}
	e.Res.Sig("admin|%s|%s|%s|n=%d", m.Kind, m.Expect, m.Why, bucket(len(m.IDs)))
	return comparePauseState(e.Res, prop, w, ctx, pm, e.R, trail)
}

func bucket(n int) int {
	switch {
	case n <= 4:
		return n
	case n < 100:
		return 50
	}
	return n
}

// CheckC08 walks random forwarder admin histories, comparing queries with the model after every
// message and probing every calibrated destination.
// bulkBatchesC08: the batch limit is the same in both directions: what one message paused, one
// message unpauses; a protocol pause/unpause cycle leaves the counterparty pauses alone.
func bulkBatchesC08(e *fw.Env, l *Lab) {
	w := l.W
	ctx, _ := l.Base.CacheContext()
	pm := NewPauseModel()
	var hist []AdminMsg
	ids := func(n, from int) []string {
		var out []string
		for i := 0; i < n; i++ {
			out = append(out, fmt.Sprint(from+i))
		}
		return out
	}
	auth := w.Authority.String()
	steps := []AdminMsg{
		{Kind: "pause-cc", Proto: "PROTOCOL_CCTP", IDs: ids(100, 2000), Signer: auth, Expect: "ok"},
		{Kind: "pause-cc", Proto: "PROTOCOL_CCTP", IDs: ids(101, 3000), Signer: auth, Expect: "fail", Why: "more than 100 ids"},
		{Kind: "pause-protocol", Proto: "PROTOCOL_CCTP", Signer: auth, Expect: "ok"},
		{Kind: "pause-cc", Proto: "PROTOCOL_CCTP", IDs: ids(3, 5000), Signer: auth, Expect: "ok"},
		{Kind: "unpause-protocol", Proto: "PROTOCOL_CCTP", Signer: auth, Expect: "ok"},
		{Kind: "unpause-cc", Proto: "PROTOCOL_CCTP", IDs: ids(101, 2000), Signer: auth, Expect: "fail", Why: "more than 100 ids"},
		{Kind: "unpause-cc", Proto: "PROTOCOL_CCTP", IDs: ids(100, 2000), Signer: auth, Expect: "ok"},
		{Kind: "unpause-cc", Proto: "PROTOCOL_CCTP", IDs: ids(3, 5000), Signer: auth, Expect: "ok"},
		{Kind: "pause-cc", Proto: "PROTOCOL_HYPERLANE", IDs: ids(99, 1), Signer: auth, Expect: "ok"},
		{Kind: "unpause-cc", Proto: "PROTOCOL_HYPERLANE", IDs: ids(99, 1), Signer: auth, Expect: "ok"},
	}
	for _, m := range steps {
		if !runAdmin(e, "C08", l, ctx, pm, m, &hist) {
			return
		}
	}
	probeForwarding(e, "C08", l, ctx, pm, false, "bulk batches")
	e.Res.Sig("bulk-batches")
}

func CheckC08(e *fw.Env, l *Lab) {
	if e.Shard == 2%e.Shards {
		bulkBatchesC08(e, l)
	}
	walks := e.N(40, 1500)
	for wk := 0; wk < walks; wk++ {
		ctx, _ := l.Base.CacheContext()
		pm := NewPauseModel()
		var hist []AdminMsg
		steps := 50 + e.R.Intn(100)
		for s := 0; s < steps; s++ {
			m := GenForwarderMsg(e.R, l.W, pm)
			e.Log(map[string]any{"walk": wk, "step": s, "msg": m})
			if !runAdmin(e, "C08", l, ctx, pm, m, &hist) {
				break
			}
			if s%6 == 5 || s == steps-1 {
				trail := hist
				if len(trail) > 40 {
					trail = trail[len(trail)-40:]
				}
				probeForwarding(e, "C08", l, ctx, pm, false, trail)
			}
		}
		if wk == 0 {
			trail := hist
			if len(trail) > 8 {
				trail = trail[:8]
			}
			e.Res.Sample(map[string]any{"walk_prefix": trail, "final_model_state": pm.String()})
		}
	}
	checkPauseT(e, "C08")
}

// GenExecutorMsg draws an executor admin message with the model's expectation.
func GenExecutorMsg(r *rand.Rand, w *world.World, pm *PauseModel) AdminMsg {
	m := AdminMsg{Signer: w.Authority.String()}
	unauthorized := r.Intn(12) == 0
	if unauthorized {
		m.Signer = w.K("carol").String()
	}
	valid := true
	if r.Intn(8) == 0 {
		m.Action = []string{"ACTION_UNSUPPORTED", "", "x", "1", "action_fee", "PROTOCOL_CCTP"}[r.Intn(6)]
		valid = false
	} else {
		m.Action = []string{"ACTION_FEE", "ACTION_FEE", "ACTION_SWAP"}[r.Intn(3)]
	}
	a := actionByName[m.Action]
	pause := r.Intn(2) == 0
	m.Kind = "unpause-action"
	if pause {
		m.Kind = "pause-action"
	}
	switch {
	case unauthorized:
		m.Expect, m.Why = "fail", "unauthorized"
	case !valid:
		m.Expect, m.Why = "fail", "invalid action"
	case pm.Actions[a] == pause:
		m.Expect, m.Why = "fail", "redundant"
	default:
		m.Expect = "ok"
	}
	return m
}

// CheckC09 walks executor admin histories (interleaved with forwarder messages) and probes
// transfers with and without the fee action.
func CheckC09(e *fw.Env, l *Lab) {
	walks := e.N(40, 1500)
	for wk := 0; wk < walks; wk++ {
		ctx, _ := l.Base.CacheContext()
		pm := NewPauseModel()
		var hist []AdminMsg
		steps := 30 + e.R.Intn(60)
		for s := 0; s < steps; s++ {
			var m AdminMsg
			if e.R.Intn(4) == 0 {
				m = GenForwarderMsg(e.R, l.W, pm)
			} else {
				m = GenExecutorMsg(e.R, l.W, pm)
			}
			e.Log(map[string]any{"walk": wk, "step": s, "msg": m})
			if !runAdmin(e, "C09", l, ctx, pm, m, &hist) {
				break
			}
			if s%4 == 3 || s == steps-1 {
				trail := hist
				if len(trail) > 40 {
					trail = trail[len(trail)-40:]
				}
				probeForwarding(e, "C09", l, ctx, pm, true, trail)
				probeForwarding(e, "C09", l, ctx, pm, false, trail)
				probeActionEdgesC09(e, l, ctx, pm, trail)
			}
		}
		if wk == 0 {
			trail := hist
			if len(trail) > 8 {
				trail = trail[:8]
			}
			e.Res.Sample(map[string]any{"walk_prefix": trail, "final_model_state": pm.String()})
		}
	}
	checkPauseT(e, "C09")
	if e.Shard == 1%e.Shards {
		pausedFromGenesisC09(e)
	}
}

// pausedFromGenesisC09: chains that start with paused actions (in any order in the genesis
// document): the queries report exactly that set and the probes respect it.
func pausedFromGenesisC09(e *fw.Env) {
	for _, ids := range [][]string{{"ACTION_SWAP", "ACTION_FEE"}, {"ACTION_FEE", "ACTION_SWAP"}, {"ACTION_FEE"}, {"ACTION_SWAP"}} {
		bz, _ := json.Marshal(ids)
		gen := fmt.Sprintf(`{"adapter_genesis":{"params":{"max_passthrough_payload_size":0}},"dispatcher_genesis":{"dispatched_amounts":[],"dispatched_counts":[]},"forwarder_genesis":{"paused_protocol_ids":[],"paused_cross_chain_ids":[]},"executor_genesis":{"paused_action_ids":%s}}`, bz)
		l, err := NewLab(world.Config{OrbiterGenesis: []byte(gen)})
		if err != nil {
			e.Res.Count("genesis-world-not-built")
			continue
		}
		pm := NewPauseModel()
		for _, id := range ids {
			pm.Actions[actionByName[id]] = true
		}
		hist := map[string]any{"genesis_paused_action_ids": ids}
		e.Res.Eval()
		if !comparePauseState(e.Res, "C09", l.W, l.Base, pm, e.R, hist) {
			continue
		}
		probeForwarding(e, "C09", l, l.Base, pm, true, hist)
		probeForwarding(e, "C09", l, l.Base, pm, false, hist)
		// and the history goes on from there
		ctx, _ := l.Base.CacheContext()
		var h []AdminMsg
		for s := 0; s < 12; s++ {
			if !runAdmin(e, "C09", l, ctx, pm, GenExecutorMsg(e.R, l.W, pm), &h) {
				break
			}
		}
		probeForwarding(e, "C09", l, ctx, pm, true, hist)
		e.Res.Sig("genesis-paused|%s", strings.Join(ids, ","))
	}
}

// checkPauseT repeats a short walk in mode T on a fresh world: every message in its own signed
// transaction (real message-level rollback by baseapp), probes on branches of committed state.
func checkPauseT(e *fw.Env, prop string) {
	if e.Shard >= 4 && !e.Thorough() {
		return
	}
	l, err := NewLab(world.Config{})
	if err != nil {
		e.Res.Inconc("world: %v", err)
		return
	}
	w := l.W
	pm := NewPauseModel()
	var hist []AdminMsg
	steps := 60
	if e.Thorough() {
		steps = 400
	}
	for s := 0; s < steps; s++ {
		var m AdminMsg
		if prop == "C09" && e.R.Intn(2) == 0 {
			m = GenExecutorMsg(e.R, w, pm)
		} else {
			m = GenForwarderMsg(e.R, w, pm)
		}
		if len(m.IDs) > 20 {
			m.IDs = m.IDs[:3]
			continue
		}
		signer := w.Authority
		if m.Signer != w.Authority.String() {
			signer = w.K("carol")
		}
		hist = append(hist, m)
		before := w.StoreDigest(w.Ctx())["orbiter"]
		res, err := w.DeliverTx(signer, m.SDK())
		if err != nil {
			e.Res.Inconc("deliver: %v", err)
			return
		}
		e.Res.Eval()
		ok := res.Code == 0
		switch m.Expect {
		case "ok":
			if !ok {
				e.Res.Violate(fw.Violation{Property: prop, Kind: "valid-admin-message-refused", Tags: map[string]string{"msg": m.Kind, "mode": "T"}, Detail: res.Log, Witness: hist})
				return
			}
			pm.Apply(m)
		case "fail":
			if ok {
				e.Res.Violate(fw.Violation{Property: prop, Kind: "invalid-admin-message-accepted", Tags: map[string]string{"msg": m.Kind, "why": m.Why, "mode": "T"}, Detail: m.Why, Witness: hist})
				return
			}
			if w.StoreDigest(w.Ctx())["orbiter"] != before {
				e.Res.Violate(fw.Violation{Property: prop, Kind: "failed-message-changed-state", Tags: map[string]string{"msg": m.Kind, "mode": "T"}, Detail: "orbiter store changed by a failed transaction", Witness: hist})
				return
			}
		default:
			got, err := readPauseState(w, w.Ctx(), 1000)
			if err != nil {
				return
			}
			*pm = *got
		}
		e.Res.Sig("T|admin|%s|%s|%s", m.Kind, m.Expect, m.Why)
		if !comparePauseState(e.Res, prop, w, w.Ctx(), pm, e.R, hist) {
			return
		}
		if s%10 == 9 {
			l.Base = w.Branch()
			probeForwarding(e, prop, l, l.Base, pm, prop == "C09", hist)
		}
	}
}
