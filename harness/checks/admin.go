package checks

import (
	"math/big"

	sdkmath "cosmossdk.io/math"
	sdk "github.com/cosmos/cosmos-sdk/types"
	banktypes "github.com/cosmos/cosmos-sdk/x/bank/types"

	adaptertypes "github.com/noble-assets/orbiter/v2/types/component/adapter"
	executortypes "github.com/noble-assets/orbiter/v2/types/component/executor"
	forwardertypes "github.com/noble-assets/orbiter/v2/types/component/forwarder"

	"orbverif/world"
)

// Deposit sends coins to the orbiter account with a real bank MsgSend (mode H).
func Deposit(w *world.World, ctx sdk.Context, from *world.Key, denom string, amt *big.Int) error {
	hr := w.Handle(ctx, &banktypes.MsgSend{
		FromAddress: from.String(), ToAddress: world.OrbiterAddr().String(),
		Amount: sdk.NewCoins(sdk.NewCoin(denom, sdkmath.NewIntFromBigInt(amt))),
	})
	return hr.Err
}

func auth(w *world.World) string { return w.Authority.String() }

func PauseProtocol(w *world.World, ctx sdk.Context, proto string) error {
	return w.Handle(ctx, &forwardertypes.MsgPauseProtocol{Signer: auth(w), ProtocolId: proto}).Err
}

func UnpauseProtocol(w *world.World, ctx sdk.Context, proto string) error {
	return w.Handle(ctx, &forwardertypes.MsgUnpauseProtocol{Signer: auth(w), ProtocolId: proto}).Err
}

func PauseCrossChains(w *world.World, ctx sdk.Context, proto string, ids []string) error {
	return w.Handle(ctx, &forwardertypes.MsgPauseCrossChains{Signer: auth(w), ProtocolId: proto, CounterpartyIds: ids}).Err
}

func UnpauseCrossChains(w *world.World, ctx sdk.Context, proto string, ids []string) error {
	return w.Handle(ctx, &forwardertypes.MsgUnpauseCrossChains{Signer: auth(w), ProtocolId: proto, CounterpartyIds: ids}).Err
}

func PauseAction(w *world.World, ctx sdk.Context, id string) error {
	return w.Handle(ctx, &executortypes.MsgPauseAction{Signer: auth(w), ActionId: id}).Err
}

func UnpauseAction(w *world.World, ctx sdk.Context, id string) error {
	return w.Handle(ctx, &executortypes.MsgUnpauseAction{Signer: auth(w), ActionId: id}).Err
}

func UpdateParams(w *world.World, ctx sdk.Context, max uint32) error {
	return w.Handle(ctx, &adaptertypes.MsgUpdateParams{Signer: auth(w), Params: adaptertypes.Params{MaxPassthroughPayloadSize: max}}).Err
}
