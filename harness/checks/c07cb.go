package checks

import (
	"fmt"
	"hash/fnv"
	"strings"

	sdk "github.com/cosmos/cosmos-sdk/types"
	capabilitytypes "github.com/cosmos/ibc-go/modules/capability/types"
	clienttypes "github.com/cosmos/ibc-go/v8/modules/core/02-client/types"
	channeltypes "github.com/cosmos/ibc-go/v8/modules/core/04-channel/types"
	porttypes "github.com/cosmos/ibc-go/v8/modules/core/05-port/types"
	ibcexported "github.com/cosmos/ibc-go/v8/modules/core/exported"

	"github.com/noble-assets/orbiter/v2/entrypoint"

	"orbverif/fw"
	"orbverif/world"
)

// cbStub is a recording application and ICS-4 wrapper: every callback appends (method, arguments)
// to its log, moves one coin between two fixed accounts, emits an event and returns a value that
// is a function of the arguments (an error for a third of the argument tuples). The middleware
// must hand every callback other than OnRecvPacket through to it untouched: same arguments, same
// number of calls, same result, same events, same state.
type cbStub struct {
	w   *world.World
	log *[]string
}

func (s cbStub) touch(ctx sdk.Context, method string, args ...any) uint32 {
	line := method
	for _, a := range args {
		switch v := a.(type) {
		case *capabilitytypes.Capability:
			if v == nil {
				line += "|cap=nil"
			} else {
				line += fmt.Sprintf("|cap=%d", v.Index)
			}
		case []byte:
			line += fmt.Sprintf("|%x", v)
		default:
			line += fmt.Sprintf("|%#v", v)
		}
	}
	*s.log = append(*s.log, line)
	_ = s.w.App.BankKeeper.SendCoins(ctx, s.w.K("carol").Addr, s.w.K("dave").Addr, sdk.NewCoins(sdk.NewInt64Coin(world.USDC, 1)))
	h := fnv.New32a()
	h.Write([]byte(line))
	ctx.EventManager().EmitEvent(sdk.NewEvent("stub_callback", sdk.NewAttribute("method", method), sdk.NewAttribute("args_hash", fmt.Sprint(h.Sum32()))))
	return h.Sum32()
}

func stubErr(h uint32, method string) error {
	if h%3 == 0 {
		return fmt.Errorf("stub %s refuses (%d)", method, h)
	}
	return nil
}

func (s cbStub) OnChanOpenInit(ctx sdk.Context, order channeltypes.Order, hops []string, port, ch string, c *capabilitytypes.Capability, cp channeltypes.Counterparty, version string) (string, error) {
	h := s.touch(ctx, "OnChanOpenInit", order, hops, port, ch, c, cp, version)
	return fmt.Sprintf("v-%d-%s", h, version), stubErr(h, "OnChanOpenInit")
}

func (s cbStub) OnChanOpenTry(ctx sdk.Context, order channeltypes.Order, hops []string, port, ch string, c *capabilitytypes.Capability, cp channeltypes.Counterparty, cpVersion string) (string, error) {
	h := s.touch(ctx, "OnChanOpenTry", order, hops, port, ch, c, cp, cpVersion)
	return fmt.Sprintf("v-%d-%s", h, cpVersion), stubErr(h, "OnChanOpenTry")
}

func (s cbStub) OnChanOpenAck(ctx sdk.Context, port, ch, cpCh, cpVersion string) error {
	return stubErr(s.touch(ctx, "OnChanOpenAck", port, ch, cpCh, cpVersion), "OnChanOpenAck")
}

func (s cbStub) OnChanOpenConfirm(ctx sdk.Context, port, ch string) error {
	return stubErr(s.touch(ctx, "OnChanOpenConfirm", port, ch), "OnChanOpenConfirm")
}

func (s cbStub) OnChanCloseInit(ctx sdk.Context, port, ch string) error {
	return stubErr(s.touch(ctx, "OnChanCloseInit", port, ch), "OnChanCloseInit")
}

func (s cbStub) OnChanCloseConfirm(ctx sdk.Context, port, ch string) error {
	return stubErr(s.touch(ctx, "OnChanCloseConfirm", port, ch), "OnChanCloseConfirm")
}

func (s cbStub) OnRecvPacket(ctx sdk.Context, p channeltypes.Packet, relayer sdk.AccAddress) ibcexported.Acknowledgement {
	h := s.touch(ctx, "OnRecvPacket", p, []byte(relayer))
	if h%3 == 0 {
		return channeltypes.NewErrorAcknowledgement(fmt.Errorf("stub refuses"))
	}
	return channeltypes.NewResultAcknowledgement([]byte{1})
}

func (s cbStub) OnAcknowledgementPacket(ctx sdk.Context, p channeltypes.Packet, ack []byte, relayer sdk.AccAddress) error {
	return stubErr(s.touch(ctx, "OnAcknowledgementPacket", p, ack, []byte(relayer)), "OnAcknowledgementPacket")
}

func (s cbStub) OnTimeoutPacket(ctx sdk.Context, p channeltypes.Packet, relayer sdk.AccAddress) error {
	return stubErr(s.touch(ctx, "OnTimeoutPacket", p, []byte(relayer)), "OnTimeoutPacket")
}

func (s cbStub) SendPacket(ctx sdk.Context, c *capabilitytypes.Capability, port, ch string, th clienttypes.Height, ts uint64, data []byte) (uint64, error) {
	h := s.touch(ctx, "SendPacket", c, port, ch, th, ts, data)
	return uint64(h) + 1, stubErr(h, "SendPacket")
}

func (s cbStub) WriteAcknowledgement(ctx sdk.Context, c *capabilitytypes.Capability, p ibcexported.PacketI, ack ibcexported.Acknowledgement) error {
	var ab []byte
	if ack != nil {
		ab = ack.Acknowledgement()
	}
	return stubErr(s.touch(ctx, "WriteAcknowledgement", c, p, ab), "WriteAcknowledgement")
}

func (s cbStub) GetAppVersion(ctx sdk.Context, port, ch string) (string, bool) {
	h := s.touch(ctx, "GetAppVersion", port, ch)
	return fmt.Sprintf("appv-%d", h), h%3 != 0
}

var cbMethods = []string{"OnChanOpenInit", "OnChanOpenTry", "OnChanOpenAck", "OnChanOpenConfirm", "OnChanCloseInit", "OnChanCloseConfirm",
	"OnAcknowledgementPacket", "OnTimeoutPacket", "SendPacket", "WriteAcknowledgement", "GetAppVersion"}

// cbCall invokes one callback with the generated arguments and renders the result.
func cbCall(ctx sdk.Context, m porttypes.Middleware, method string, a *cbArgs) (out string) {
	defer func() {
		if r := recover(); r != nil {
			out = fmt.Sprintf("PANIC %v", r)
		}
	}()
	switch method {
	case "OnChanOpenInit":
		v, err := m.OnChanOpenInit(ctx, a.order, a.hops, a.port, a.ch, a.cap, a.cp, a.version)
		return fmt.Sprintf("%q err=%v", v, err)
	case "OnChanOpenTry":
		v, err := m.OnChanOpenTry(ctx, a.order, a.hops, a.port, a.ch, a.cap, a.cp, a.version)
		return fmt.Sprintf("%q err=%v", v, err)
	case "OnChanOpenAck":
		return fmt.Sprintf("err=%v", m.OnChanOpenAck(ctx, a.port, a.ch, a.cp.ChannelId, a.version))
	case "OnChanOpenConfirm":
		return fmt.Sprintf("err=%v", m.OnChanOpenConfirm(ctx, a.port, a.ch))
	case "OnChanCloseInit":
		return fmt.Sprintf("err=%v", m.OnChanCloseInit(ctx, a.port, a.ch))
	case "OnChanCloseConfirm":
		return fmt.Sprintf("err=%v", m.OnChanCloseConfirm(ctx, a.port, a.ch))
	case "OnAcknowledgementPacket":
		return fmt.Sprintf("err=%v", m.OnAcknowledgementPacket(ctx, a.pkt, a.ack, a.relayer))
	case "OnTimeoutPacket":
		return fmt.Sprintf("err=%v", m.OnTimeoutPacket(ctx, a.pkt, a.relayer))
	case "SendPacket":
		seq, err := m.SendPacket(ctx, a.cap, a.port, a.ch, a.pkt.TimeoutHeight, a.pkt.TimeoutTimestamp, a.pkt.Data)
		return fmt.Sprintf("seq=%d err=%v", seq, err)
	case "WriteAcknowledgement":
		var ack ibcexported.Acknowledgement
		switch len(a.ack) % 3 {
		case 0:
			ack = channeltypes.NewResultAcknowledgement(a.ack)
		case 1:
			ack = channeltypes.NewErrorAcknowledgement(fmt.Errorf("%x", a.ack))
		}
		return fmt.Sprintf("err=%v", m.WriteAcknowledgement(ctx, a.cap, a.pkt, ack))
	case "GetAppVersion":
		v, ok := m.GetAppVersion(ctx, a.port, a.ch)
		return fmt.Sprintf("%q %v", v, ok)
	}
	return "?"
}

type cbArgs struct {
	order   channeltypes.Order
	hops    []string
	port    string
	ch      string
	cap     *capabilitytypes.Capability
	cp      channeltypes.Counterparty
	version string
	pkt     channeltypes.Packet
	ack     []byte
	relayer sdk.AccAddress
}

// checkC07Callbacks: part 4 of C07 (handshake, close, acknowledgement, timeout and send paths).
func checkC07Callbacks(e *fw.Env, l *Lab) {
	w := l.W
	recvs := append([]string{world.OrbiterAddr().String()}, nonOrbiterReceivers(w)...)
	memos := hostileMemos(l, e.R)
	ports := []string{"transfer", "transfer", "icahost", "tr", "wasm.noble1abc", strings.Repeat("p", 128), ""}
	chans := []string{"channel-0", "channel-1", "channel-3", "channel-99", "mychannel12", "CHANNEL-00", "", strings.Repeat("c", 64)}
	versions := []string{"ics20-1", "", "ics20-2", `{"fee_version":"ics29-1","app_version":"ics20-1"}`, "orbiter-1", strings.Repeat("v", 300)}
	acks := [][]byte{[]byte(`{"result":"AQ=="}`), []byte(`{"error":"ABCI code: 5: error handling packet"}`), nil, {}, []byte("garbage"), []byte(`{"result":""}`)}

	// 4a. recording stub: middleware(stub) vs stub
	n := e.N(3000, 120000)
	for i := 0; i < n; i++ {
		method := cbMethods[e.R.Intn(len(cbMethods))]
		pair := w.Channels[e.R.Intn(len(w.Channels))]
		a := &cbArgs{
			order:   channeltypes.Order(e.R.Intn(3)),
			hops:    [][]string{{"connection-localhost"}, {"connection-0"}, {}, {"connection-0", "connection-1"}}[e.R.Intn(4)],
			port:    ports[e.R.Intn(len(ports))],
			ch:      chans[e.R.Intn(len(chans))],
			cp:      channeltypes.NewCounterparty(ports[e.R.Intn(len(ports))], chans[e.R.Intn(len(chans))]),
			version: versions[e.R.Intn(len(versions))],
			ack:     acks[e.R.Intn(len(acks))],
			relayer: w.K("relayer").Addr,
		}
		if e.R.Intn(5) != 0 {
			a.cap = capabilitytypes.NewCapability(uint64(e.R.Intn(50)))
		}
		if e.R.Intn(6) == 0 {
			a.relayer = nil
		}
		var data []byte
		if e.R.Intn(6) == 0 {
			data = make([]byte, e.R.Intn(200))
			e.R.Read(data)
		} else {
			ri, mi := e.R.Intn(len(recvs)), e.R.Intn(len(memos))
			sender := w.K("bob").String()
			if e.R.Intn(4) == 0 {
				sender = world.OrbiterAddr().String() // packets the orbiter account itself is the sender of
			}
			data = world.ICS20([]string{world.USDC, world.Port + "/" + pair.B + "/" + world.USDC, "uforeign"}[e.R.Intn(3)], "1000", sender, recvs[ri], memos[mi])
		}
		a.pkt = channeltypes.NewPacket(data, uint64(1+e.R.Intn(5000)), a.port, a.ch, a.cp.PortId, a.cp.ChannelId, clienttypes.NewHeight(uint64(e.R.Intn(3)), uint64(e.R.Intn(1000))), uint64(e.R.Intn(3))*1_700_000_000_000_000_000)
		e.Log(map[string]any{"callback": method, "port": a.port, "channel": a.ch, "data": data})

		var logA, logB []string
		stA, stB := cbStub{w: w, log: &logA}, cbStub{w: w, log: &logB}
		mw := entrypoint.NewIBCMiddleware(stA, stA, w.App.OrbiterKeeper.Adapter())
		c1, _ := l.Base.CacheContext()
		c2, _ := l.Base.CacheContext()
		c1 = c1.WithEventManager(sdk.NewEventManager())
		c2 = c2.WithEventManager(sdk.NewEventManager())
		g1, g2 := c1.GasMeter().GasConsumed(), c2.GasMeter().GasConsumed()
		o1 := cbCall(c1, mw, method, a)
		o2 := cbCall(c2, fullStubMW{stB}, method, a)
		g1, g2 = c1.GasMeter().GasConsumed()-g1, c2.GasMeter().GasConsumed()-g2
		e.Res.Eval()
		wtn := map[string]any{"callback": method, "port": a.port, "channel": a.ch, "version": a.version, "packet_data": trunc(string(data), 400),
			"through_middleware": o1, "direct": o2, "calls_seen_through_middleware": logA, "calls_direct": logB}
		tags := map[string]string{"callback": method, "wrapped": "recording-stub"}
		switch {
		case o1 != o2:
			e.Res.Violate(fw.Violation{Property: "C07", Kind: "callback-result-changed", Tags: tags, Detail: fmt.Sprintf("%s: through the middleware %s, direct %s", method, trunc(o1, 300), trunc(o2, 300)), Witness: wtn})
		case strings.Join(logA, "\n") != strings.Join(logB, "\n"):
			e.Res.Violate(fw.Violation{Property: "C07", Kind: "callback-arguments-changed", Tags: tags, Detail: fmt.Sprintf("%s: the wrapped side saw %d call(s) %s, expected 1 call %s", method, len(logA), trunc(strings.Join(logA, " ; "), 300), trunc(strings.Join(logB, " ; "), 300)), Witness: wtn})
		case renderEvents(c1.EventManager().ABCIEvents()) != renderEvents(c2.EventManager().ABCIEvents()):
			e.Res.Violate(fw.Violation{Property: "C07", Kind: "callback-events-changed", Tags: tags, Detail: firstDiffLine(renderEvents(c1.EventManager().ABCIEvents()), renderEvents(c2.EventManager().ABCIEvents())), Witness: wtn})
		case g1 != g2:
			e.Res.Violate(fw.Violation{Property: "C07", Kind: "callback-gas-changed", Tags: tags, Detail: fmt.Sprintf("gas %d through the middleware, %d direct", g1, g2), Witness: wtn})
		default:
			if diff := world.DigestDiff(w.StoreDigest(c1), w.StoreDigest(c2)); len(diff) != 0 {
				e.Res.Violate(fw.Violation{Property: "C07", Kind: "callback-state-changed", Tags: tags, Detail: fmt.Sprintf("stores differing: %v", diff), Witness: wtn})
			}
		}
		stubCls := "accepted"
		if strings.Contains(o2, "refuses") || strings.HasSuffix(o2, "false") {
			stubCls = "refused"
		}
		e.Res.Sig("callback|stub|%s|%s|port%d|chan%d", method, stubCls, len(a.port)%5, len(a.ch)%5)
	}

	// 4b. the real ICS-20 application: entrypoint(transfer) vs transfer for acknowledgements and
	// timeouts of outgoing packets (refunds from the escrow are real state changes).
	orbStack, bare := w.OrbiterStack(), w.BareTransfer()
	for i := 0; i < e.N(1500, 60000); i++ {
		pair := w.Channels[e.R.Intn(len(w.Channels))]
		ri, mi := e.R.Intn(len(recvs)), e.R.Intn(len(memos))
		sender := []string{w.K("alice").String(), w.K("bob").String(), world.OrbiterAddr().String(), strings.ToUpper(world.OrbiterAddr().String()), "cosmos1invalid", ""}[e.R.Intn(6)]
		denom := []string{world.USDC, world.USDC, world.USDN, world.Port + "/" + pair.A + "/uatom", "uforeign", ""}[e.R.Intn(6)]
		amount := []string{"1000", "1", "0", "-1", "abc", "340282366920938463463374607431768211456"}[e.R.Intn(6)]
		data := world.ICS20(denom, amount, sender, recvs[ri], memos[mi])
		if e.R.Intn(10) == 0 {
			data = make([]byte, e.R.Intn(200))
			e.R.Read(data)
		}
		pkt := channeltypes.NewPacket(data, uint64(1+e.R.Intn(5000)), world.Port, pair.A, world.Port, pair.B, w.FarTimeout(), 0)
		ack := acks[e.R.Intn(len(acks))]
		timeout := e.R.Intn(3) == 0
		e.Log(map[string]any{"ack_or_timeout_packet": data, "ack": ack, "timeout": timeout})
		call := func(ctx sdk.Context, m porttypes.IBCModule) (out string) {
			defer func() {
				if r := recover(); r != nil {
					out = fmt.Sprintf("PANIC %v", r)
				}
			}()
			if timeout {
				return fmt.Sprintf("err=%v", m.OnTimeoutPacket(ctx, pkt, w.K("relayer").Addr))
			}
			return fmt.Sprintf("err=%v", m.OnAcknowledgementPacket(ctx, pkt, ack, w.K("relayer").Addr))
		}
		c1, _ := l.Base.CacheContext()
		c2, _ := l.Base.CacheContext()
		c1 = c1.WithEventManager(sdk.NewEventManager())
		c2 = c2.WithEventManager(sdk.NewEventManager())
		o1, o2 := call(c1, orbStack), call(c2, bare)
		e.Res.Eval()
		what := "OnAcknowledgementPacket"
		if timeout {
			what = "OnTimeoutPacket"
		}
		wtn := map[string]any{"callback": what, "packet_data": trunc(string(data), 400), "ack": string(ack), "with_middleware": o1, "without": o2}
		tags := map[string]string{"callback": what, "wrapped": "ics20"}
		ev1, ev2 := maskPtr(renderEvents(c1.EventManager().ABCIEvents())), maskPtr(renderEvents(c2.EventManager().ABCIEvents()))
		switch {
		case maskPtr(o1) != maskPtr(o2):
			e.Res.Violate(fw.Violation{Property: "C07", Kind: "callback-result-changed", Tags: tags, Detail: fmt.Sprintf("with the middleware %s, without %s", trunc(o1, 300), trunc(o2, 300)), Witness: wtn})
		case ev1 != ev2:
			e.Res.Violate(fw.Violation{Property: "C07", Kind: "callback-events-changed", Tags: tags, Detail: firstDiffLine(ev1, ev2), Witness: wtn})
		default:
			if diff := world.DigestDiff(w.StoreDigest(c1), w.StoreDigest(c2)); len(diff) != 0 {
				e.Res.Violate(fw.Violation{Property: "C07", Kind: "callback-state-changed", Tags: tags, Detail: fmt.Sprintf("stores differing: %v", diff), Witness: wtn})
			}
		}
		cls := "ok"
		if strings.HasPrefix(o2, "PANIC") {
			cls = "panic"
		} else if o2 != "err=<nil>" {
			cls = "error"
		}
		e.Res.Sig("callback|ics20|%s|%s|sender%d", what, cls, strings.Count(sender, "")%7)
	}
}

// fullStubMW lets the stub be called through the same interface as the middleware.
type fullStubMW struct{ cbStub }

var _ porttypes.Middleware = fullStubMW{}

func maskPtr(s string) string { return pointerPrint.ReplaceAllString(s, "got {ptr}") }
