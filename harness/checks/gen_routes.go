package checks

import (
	"fmt"
	"math/rand"
	"strings"

	sdk "github.com/cosmos/cosmos-sdk/types"
	"github.com/cosmos/cosmos-sdk/types/bech32"

	"orbverif/spec"
	"orbverif/world"
)

// otherHRP re-encodes an address with another human-readable prefix.
func otherHRP(a sdk.AccAddress, hrp string) string {
	s, err := bech32.ConvertAndEncode(hrp, a)
	if err != nil {
		panic(err)
	}
	return s
}

// GenInternalRecipient draws an internal recipient from the hostile space of DESIGN.md.
func GenInternalRecipient(r *rand.Rand, w *world.World) (string, string) {
	switch r.Intn(12) {
	case 0:
		return world.OrbiterAddr().String(), "orbiter"
	case 1:
		return strings.ToUpper(world.OrbiterAddr().String()), "orbiter-upper"
	case 2:
		return world.DustAddr().String(), "dust"
	case 3:
		return ModAddr("bonded_tokens_pool"), "blocked-module"
	case 4:
		return ModAddr("transfer"), "module"
	case 5:
		return ModAddr("cctp"), "module"
	case 6:
		return otherHRP(w.K("rcpt1").Addr, "cosmos"), "other-hrp"
	case 7:
		return strings.ToUpper(w.K("rcpt1").String()), "upper"
	case 8:
		return "", "empty"
	case 9:
		s := w.K("rcpt1").String()
		return s[:len(s)-2], "truncated"
	case 10:
		return EscrowAddr(w.Channels[0].A), "escrow"
	default:
		return w.K("rcpt2").String(), "ordinary"
	}
}

// GenHostileRoute draws a route that is not one of the calibrated templates.
func GenHostileRoute(r *rand.Rand, l *Lab, denom string) (spec.Route, string) {
	w := l.W
	switch r.Intn(3) {
	case 0:
		to, cls := GenInternalRecipient(r, w)
		return spec.Route{Kind: "internal", To: to}, "internal:" + cls
	case 1:
		rt := spec.Route{Kind: "cctp", MintRecipient: evmAddr32(r)}
		cls := ""
		switch r.Intn(7) {
		case 0:
			rt.Domain, cls = 4, "noble-domain"
		case 1:
			rt.Domain, cls = 1, "no-messenger"
		case 2:
			rt.Domain, cls = 0, "zero-recipient"
			rt.MintRecipient = make([]byte, 32)
		case 3:
			rt.Domain, cls = 0, "empty-recipient"
			rt.MintRecipient = nil
		case 4:
			rt.Domain, cls = 0, "short-recipient"
			rt.MintRecipient = []byte{1, 2, 3}
		case 5:
			rt.Domain, cls = 0, "odd-caller"
			rt.Caller = []byte{9}
		default:
			rt.Domain, cls = 0, "long-recipient"
			rt.MintRecipient = append(evmAddr32(r), 1, 2, 3)
		}
		return rt, "cctp:" + cls
	default:
		tok := w.Hyp.TokenUSDC.Bytes()
		switch denom {
		case world.USDN:
			tok = w.Hyp.TokenUSDN.Bytes()
		case world.BIG:
			tok = w.Hyp.TokenBIG.Bytes()
		}
		zero := "0"
		rt := spec.Route{Kind: "hyp", Domain: 1, TokenID: tok, Recipient: evmAddr32(r), GasLimit: &zero,
			MaxFee: &spec.Coin{Denom: world.USDN, Amount: "0"}}
		cls := ""
		switch r.Intn(20) {
		case 18, 19:
			// optional fields at the top of their range, with each kind of hook: the paymaster
			// multiplies the gas limit by its price and exchange rate
			cls = "huge-gas"
			g := pow2(uint(60 + r.Intn(196))).String()
			rt.GasLimit = &g
			switch r.Intn(3) {
			case 0:
				rt.HookID, cls = w.Hyp.IGP.Bytes(), "huge-gas+igp-hook"
			case 1:
				rt.HookID = w.Hyp.NoopHook.Bytes()
			}
			rt.Domain = w.Hyp.IGPDomains[r.Intn(len(w.Hyp.IGPDomains))]
			rt.MaxFee = &spec.Coin{Denom: world.USDN, Amount: []string{"0", "1000000", MaxU256.String()}[r.Intn(3)]}
		case 14:
			cls = "long-recipient"
			rt.Recipient = append(evmAddr32(r), byte(1+r.Intn(200)))
			if r.Intn(2) == 0 {
				rt.Recipient = []byte(fmt.Sprintf("%x", evmAddr32(r))) // the 64 ASCII bytes of the hex text
			}
		case 15:
			cls = "short-recipient"
			rt.Recipient = evmAddr32(r)[:20]
		case 16:
			cls = "long-token"
			rt.TokenID = append(append([]byte(nil), rt.TokenID...), 0)
		case 17:
			cls = "long-hook"
			rt.HookID = append(append([]byte(nil), w.Hyp.NoopHook.Bytes()...), 7)
			if r.Intn(2) == 0 {
				cls = "short-hook"
				rt.HookID = append([]byte(nil), w.Hyp.NoopHook.Bytes()[:1+r.Intn(31)]...)
			}
		case 0:
			rt.Domain, cls = w.Hyp.Unenrolled[r.Intn(len(w.Hyp.Unenrolled))], "unenrolled"
		case 1:
			rt.Domain, cls = 1313817164, "noble-mainnet"
		case 2:
			rt.Domain, cls = 1196573006, "noble-testnet"
		case 3:
			cls = "wrong-denom-token"
			if denom == world.USDC {
				rt.TokenID = w.Hyp.TokenUSDN.Bytes()
			} else {
				rt.TokenID = w.Hyp.TokenUSDC.Bytes()
			}
		case 4:
			cls = "foreign-token"
			rt.TokenID = rnd32(r)
		case 5:
			cls = "short-token"
			rt.TokenID = rt.TokenID[:31]
		case 6:
			cls = "nil-gas"
			rt.GasLimit = nil
		case 7:
			cls = "nil-maxfee"
			rt.MaxFee = nil
		case 8:
			cls = "nil-gas-nil-maxfee"
			rt.GasLimit, rt.MaxFee = nil, nil
		case 9:
			cls = "igp-hook"
			rt.HookID = w.Hyp.IGP.Bytes()
			rt.MaxFee = &spec.Coin{Denom: world.USDN, Amount: "1000000"}
		case 10:
			cls = "unknown-hook"
			rt.HookID = rnd32(r)
		case 11:
			cls = "bad-metadata"
			rt.Metadata = "zz"
		case 12:
			cls = "neg-gas"
			g := "-5"
			rt.GasLimit = &g
		default:
			cls = "maxfee-empty-denom"
			rt.MaxFee = &spec.Coin{Denom: "", Amount: "5"}
		}
		return rt, "hyp:" + cls
	}
}

// GenReceiver draws a receiver string and its class.
func GenReceiver(r *rand.Rand, w *world.World) (string, string) {
	orb := world.OrbiterAddr()
	switch r.Intn(20) {
	case 0, 1, 2:
		return strings.ToUpper(orb.String()), "orbiter-upper"
	case 3:
		s := orb.String()
		return strings.ToUpper(s[:8]) + s[8:], "orbiter-mixed"
	case 4:
		return otherHRP(orb, "cosmos"), "orbiter-other-hrp"
	case 5:
		return " " + orb.String(), "orbiter-padded"
	case 6:
		return world.DustAddr().String(), "dust"
	case 7:
		return w.K("carol").String(), "user"
	case 8:
		s := orb.String()
		return s[:len(s)-1], "orbiter-truncated"
	default:
		return orb.String(), "orbiter"
	}
}
