package checks

import (
	"encoding/json"
	"fmt"
	"math/big"
	"strings"

	sdk "github.com/cosmos/cosmos-sdk/types"

	adaptercomp "github.com/noble-assets/orbiter/v2/keeper/component/adapter"
	adaptertypes "github.com/noble-assets/orbiter/v2/types/component/adapter"

	"orbverif/fw"
	"orbverif/run"
	"orbverif/spec"
	"orbverif/world"
)

const maxProbeLen = 20000 // ICS-20 caps the memo at 32 KiB; base64 inflates by 4/3

func probeLens(limit uint32) []int {
	l := int(limit)
	cands := []int{0, 1, l - 1, l, l + 1, 2 * l, l + 100, maxProbeLen}
	seen := map[int]bool{}
	var out []int
	for _, c := range cands {
		if c < 0 || c > maxProbeLen || seen[c] {
			continue
		}
		seen[c] = true
		out = append(out, c)
	}
	return out
}

func checkParamsVisible(e *fw.Env, w *world.World, ctx sdk.Context, want uint32, hist any) bool {
	q := adaptercomp.NewQueryServer(w.App.OrbiterKeeper.Adapter())
	resp, err := q.Params(ctx, &adaptertypes.QueryParamsRequest{})
	if err != nil || resp.Params.MaxPassthroughPayloadSize != want {
		e.Res.Violate(fw.Violation{Property: "C18", Kind: "params-query-differs-from-model",
			Detail: fmt.Sprintf("Params query: %v %v, model %d", resp, err, want), Witness: hist})
		return false
	}
	g := w.App.OrbiterKeeper.ExportGenesis(ctx)
	if g.AdapterGenesis.Params.MaxPassthroughPayloadSize != want {
		e.Res.Violate(fw.Violation{Property: "C18", Kind: "exported-params-differ-from-model",
			Detail: fmt.Sprintf("export %d, model %d", g.AdapterGenesis.Params.MaxPassthroughPayloadSize, want), Witness: hist})
		return false
	}
	return true
}

func probePassthrough(e *fw.Env, l *Lab, ctx sdk.Context, limit uint32, hist any) {
	for _, n := range probeLens(limit) {
		d := l.PickDest(e.R, []string{world.USDC, world.USDN}[e.R.Intn(2)])
		pt := make([]byte, n)
		e.R.Read(pt)
		// the limit counts bytes: one payload in three is text made of multi-byte characters
		if e.R.Intn(3) == 0 {
			pt = []byte(strings.Repeat([]string{"é", "€", "💥", "aé€"}[e.R.Intn(4)], n))[:n]
		}
		s := &spec.Spec{Route: d.Make(e.R), Passthrough: pt}
		if e.R.Intn(3) == 0 {
			s.HasFee, s.Fees = true, []spec.Fee{{Recipient: l.W.K("fee2").String(), IsBPS: true, BPS: 10}}
		}
		t := l.NewTransfer(e.R, d.Denom, big.NewInt(1_000_000), s)
		branch, _ := ctx.CacheContext()
		// one probe in three: the orbiter account holds dust of the transferred coin (anybody can
		// send coins there); the limit applies all the same
		dust := ""
		if e.R.Intn(3) == 0 {
			amt := GenAmount(e.R, big.NewInt(5_000_000))
			if Deposit(l.W, branch, l.W.K("carol"), d.Denom, amt) == nil {
				dust = amt.String() + d.Denom
			}
		}
		o := run.Do(l.W, branch, t, run.Mode{Kind: "H"})
		e.Res.Eval()
		Universal(e.Res, o)
		wtn := map[string]any{"history": hist, "limit": limit, "passthrough_len": n, "dest": d.Name, "dust_on_orbiter_account": dust, "outcome": o.Res.String()}
		tooLong := uint64(n) > uint64(limit)
		switch {
		case o.Res.Panic != nil || o.Res.Err != nil || o.Res.Ack == nil:
			e.Res.Inconc("probe without acknowledgement: %s", o.Res.String())
		case tooLong && o.Success():
			e.Res.Violate(fw.Violation{Property: "C18", Kind: "oversized-passthrough-accepted",
				Detail: fmt.Sprintf("passthrough of %d bytes accepted with limit %d", n, limit), Witness: wtn})
		case !tooLong && !o.Success():
			e.Res.Violate(fw.Violation{Property: "C18", Kind: "passthrough-within-limit-refused",
				Detail: fmt.Sprintf("passthrough of %d bytes refused with limit %d: %s", n, limit, o.Res.AckErr), Witness: wtn})
		case tooLong && len(o.Delta.Bal) != 0:
			e.Res.Violate(fw.Violation{Property: "C18", Kind: "refused-packet-left-credit", Detail: o.Delta.String(), Witness: wtn})
		}
		rel := "within"
		if tooLong {
			rel = "over"
		}
		e.Res.Sig("limit=%s|len-%s|%s|dust=%v|%s", limBucket(limit), rel, lenBucket(n, limit), dust != "", outcomeClass(o))
	}
}

func limBucket(l uint32) string {
	switch {
	case l <= 2:
		return fmt.Sprint(l)
	case l <= 256:
		return "<=256"
	case l <= maxProbeLen:
		return "<=probe-cap"
	}
	return ">probe-cap"
}

func lenBucket(n int, l uint32) string {
	switch {
	case n == 0:
		return "0"
	case n == int(l):
		return "L"
	case n == int(l)+1:
		return "L+1"
	case n == int(l)-1:
		return "L-1"
	}
	return "other"
}

var paramEdges = []uint32{0, 1, 2, 255, 256, 4095, 19999, 20000, 30000, 2147483648, 4294967295}

// CheckC18 walks parameter histories and probes the limit after every update.
func CheckC18(e *fw.Env, l *Lab) {
	w := l.W
	// default parameters: only the empty passthrough is accepted.
	if e.Shard == 0 {
		checkParamsVisible(e, w, l.Base, 0, "default genesis")
		probePassthrough(e, l, l.Base, 0, "default genesis")
	}
	// a store in which the parameter item was never written (a module added without running its
	// genesis): not reachable through genesis or messages, checked because the statement defines
	// the behaviour ("missing parameters mean limit 0"): only the empty passthrough passes
	if e.Shard == 1%e.Shards {
		ctx, _ := l.Base.CacheContext()
		st := ctx.KVStore(orbiterStoreKey(w))
		st.Delete([]byte{40})
		probePassthrough(e, l, ctx, 0, "parameter item deleted from the store")
		e.Res.Sig("missing-params")
	}
	walks := e.N(60, 3000)
	for wk := 0; wk < walks; wk++ {
		ctx, _ := l.Base.CacheContext()
		model := uint32(0)
		var hist []string
		for s := 0; s < 10; s++ {
			var v uint32
			if e.R.Intn(2) == 0 {
				v = paramEdges[e.R.Intn(len(paramEdges))]
			} else {
				v = uint32(e.R.Intn(3000))
			}
			signer := w.Authority.String()
			unauthorized := e.R.Intn(6) == 0
			if unauthorized {
				signer = w.K("carol").String()
			}
			hist = append(hist, fmt.Sprintf("UpdateParams(%d) by %s", v, map[bool]string{true: "user", false: "authority"}[unauthorized]))
			e.Log(map[string]any{"walk": wk, "hist": hist})
			hr := w.Handle(ctx, &adaptertypes.MsgUpdateParams{Signer: signer, Params: adaptertypes.Params{MaxPassthroughPayloadSize: v}})
			e.Res.Eval()
			switch {
			case unauthorized && hr.Err == nil:
				e.Res.Violate(fw.Violation{Property: "C18", Kind: "unauthorized-update-applied", Detail: "UpdateParams by a user succeeded", Witness: hist})
			case !unauthorized && hr.Err != nil:
				e.Res.Violate(fw.Violation{Property: "C18", Kind: "authority-update-refused", Detail: hr.Err.Error(), Witness: hist})
			case !unauthorized:
				model = v
			}
			if !checkParamsVisible(e, w, ctx, model, hist) {
				break
			}
			probePassthrough(e, l, ctx, model, hist)
		}
		if wk == 0 {
			e.Res.Sample(map[string]any{"history": hist, "final_limit": model})
		}
	}
	// genesis-set values: fresh worlds.
	if e.Shard < 3 || e.Thorough() {
		vals := []uint32{0, 1, 300, 4294967295}
		v := vals[(e.Shard+int(e.Seed))%len(vals)]
		gen := map[string]any{}
		bz := l.W.Cdc.MustMarshalJSON(l.W.App.OrbiterKeeper.ExportGenesis(l.Base))
		json.Unmarshal(bz, &gen)
		gen["adapter_genesis"] = map[string]any{"params": map[string]any{"max_passthrough_payload_size": v}}
		gbz, _ := json.Marshal(gen)
		l2, err := NewLab(world.Config{OrbiterGenesis: gbz})
		if err != nil {
			// a value the authority can set by message must be acceptable in a genesis document
			// too (the state it leads to is exported as one)
			tmp, _ := l.Base.CacheContext()
			if UpdateParams(w, tmp, v) == nil {
				e.Res.Violate(fw.Violation{Property: "C18", Kind: "genesis-refuses-value-the-authority-can-set",
					Detail: fmt.Sprintf("a chain cannot start with max_passthrough_payload_size=%d (%v), yet UpdateParams accepts that value", v, trunc(err.Error(), 300))})
				return
			}
			e.Res.Count("genesis-value-refused-by-genesis-and-by-update")
			return
		}
		h := fmt.Sprintf("genesis max_passthrough_payload_size=%d", v)
		if checkParamsVisible(e, l2.W, l2.Base, v, h) {
			probePassthrough(e, l2, l2.Base, v, h)
			e.Res.Sig("genesis-set|%d", v)
		}
	}
}
