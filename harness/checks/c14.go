package checks

import (
	"fmt"
	"math/big"
	"strings"

	sdkmath "cosmossdk.io/math"
	sdk "github.com/cosmos/cosmos-sdk/types"
	banktypes "github.com/cosmos/cosmos-sdk/x/bank/types"
	channeltypes "github.com/cosmos/ibc-go/v8/modules/core/04-channel/types"

	"orbverif/fw"
	"orbverif/jm"
	"orbverif/run"
	"orbverif/world"
)

// DataMut is a hostile ICS-20 packet data document.
type DataMut struct {
	Site string `json:"site"`
	Kind string `json:"kind"`
	Data []byte `json:"data"`
}

var hostileAmounts = []string{"-5", "-0", "0", "+1000", "01000", "0x3e8", "1_000", "1e3", " 1000", "1000 ", "", "1.5",
	"115792089237316195423570985008687907853269984665640564039457584007913129639935",
	"115792089237316195423570985008687907853269984665640564039457584007913129639936",
	"99999999999999999999999999999999999999999999999999999999999999999999999999999999999999999999", "٣", "1\u0000"}

// HostileDenoms is the denomination grammar of C16 rendered for source end (port, ch).
func HostileDenoms(port, ch string) []string {
	p := port + "/" + ch + "/"
	return []string{
		"", "!!", "uusdc", "UUSDC", p, p + "!!", p + "uusdc", p + "uusdc/", p + "/uusdc", p + p + "uusdc",
		p + "transfer/channel-9/uusdc", "transfer/channel-9/uusdc", "transfer/" + ch + "x/uusdc", "/" + p + "uusdc",
		p + "ibc/27394FB092D2ECCD56123C74F36E4C1F926001CEADA9CA97EA622B25F41E5EB2", "ibc/27394FB092D2ECCD56123C74F36E4C1F926001CEADA9CA97EA622B25F41E5EB2",
		p + "factory/noble1abc/token", p + "a", p + strings.Repeat("a", 200), p + "uusdc ", p + " uusdc", p + "1abc",
		p + "uusdn", p + "ubig", p + "stake", p + "nonexistent", strings.ToUpper(p) + "uusdc", port + "/" + ch + "uusdc",
		p + "u\u0000sdc", p + "💥",
	}
}

// DataMutations enumerates hostile packet data built around a valid orbiter packet.
func DataMutations(l *Lab, pair world.ChannelPair, memo string) []DataMut {
	base := world.ICS20(world.Port+"/"+pair.B+"/"+world.USDC, "1000000", l.W.K("bob").String(), OrbiterReceiver(), memo)
	root, err := jm.Parse(string(base))
	if err != nil {
		panic(err)
	}
	var out []DataMut
	for _, st := range jm.Sites(root) {
		if len(st.Path) == 0 {
			continue
		}
		orig, _ := jm.At(root, st.Path)
		out = append(out, DataMut{st.Name, "delete", []byte(jm.Delete(root, st.Path).String())})
		for k, n := range map[string]*jm.Node{
			"null": jm.N(jm.Null), "num0": jm.Number("0"), "num-1": jm.Number("-1"), "true": jm.Boolean(true),
			"arr": jm.Array(orig.Clone()), "obj": jm.Object(), "strempty": jm.S(""), "deep": jm.Deep(300),
			"numbig": jm.Number("1e400"), "long": jm.S(strings.Repeat("z", 70000)),
		} {
			out = append(out, DataMut{st.Name, k, []byte(jm.Replace(root, st.Path, n).String())})
		}
		parent := st.Path[:len(st.Path)-1]
		out = append(out, DataMut{st.Name, "dup-null-after", []byte(jm.InsertKey(root, parent, st.Key, jm.N(jm.Null), false).String())})
		out = append(out, DataMut{st.Name, "dup-null-before", []byte(jm.InsertKey(root, parent, st.Key, jm.N(jm.Null), true).String())})
		switch st.Key {
		case "amount":
			for _, a := range hostileAmounts {
				out = append(out, DataMut{st.Name, "amount=" + a, []byte(jm.Replace(root, st.Path, jm.S(a)).String())})
			}
		case "denom":
			for _, d := range HostileDenoms(world.Port, pair.B) {
				out = append(out, DataMut{st.Name, "denom=" + trunc40(d), []byte(jm.Replace(root, st.Path, jm.S(d)).String())})
			}
		case "receiver":
			orb := OrbiterReceiver()
			for _, rcv := range []string{strings.ToUpper(orb), " " + orb, orb + " ", orb[:len(orb)-1], otherHRP(world.OrbiterAddr(), "cosmos"),
				strings.Repeat("n", 3000), world.DustAddr().String(), "", "noble1", orb + "\u0000"} {
				out = append(out, DataMut{st.Name, "receiver=" + trunc40(rcv), []byte(jm.Replace(root, st.Path, jm.S(rcv)).String())})
			}
		case "sender":
			for _, s := range []string{"", "x", "cosmos1qypqxpq9qcrsszg2pvxq6rs0zqg3yyc5lzv7xu", strings.Repeat("s", 3000), "0xdeadbeef"} {
				out = append(out, DataMut{st.Name, "sender=" + trunc40(s), []byte(jm.Replace(root, st.Path, jm.S(s)).String())})
			}
		}
	}
	out = append(out, DataMut{"$", "unknown-key", []byte(jm.InsertKey(root, nil, "zz", jm.Number("1"), false).String())})
	for _, doc := range []string{"", "null", "[]", "{}", "1", `"x"`, "{", `{"amount":`, "\x00\x01\x02", string(base) + "x", "\xff\xfe"} {
		out = append(out, DataMut{"$", "doc=" + trunc40(doc), []byte(doc)})
	}
	for cut := 1; cut < len(base); cut += 1 + len(base)/30 {
		out = append(out, DataMut{"$", fmt.Sprintf("truncate@%d", cut), base[:cut]})
	}
	return out
}

func trunc40(s string) string {
	if len(s) > 40 {
		return s[:40] + "…"
	}
	return s
}

// CheckC14 is the structural fuzzing workload; the oracle is "no panic, always an
// acknowledgement" plus "certainly malformed payloads addressed to the orbiter are refused".
func CheckC14(e *fw.Env, l *Lab) {
	w := l.W
	base, _ := l.Base.CacheContext()
	if err := UpdateParams(w, base, 64); err != nil {
		e.Res.Inconc("cannot set params: %v", err)
		return
	}
	modC := run.Mode{Kind: "C", Mod: w.OrbiterStack()}
	modH := run.Mode{Kind: "H"}
	idx := 0
	judge := func(o *run.Obs, malformed bool, cls string, wtn any) {
		e.Res.Eval()
		e.Res.Count("outcome" + o.Res.Mode + ":" + outcomeClass(o))
		before := len(e.Res.Violations)
		Universal(e.Res, o)
		attachSetup(e.Res, before, wtn)
		if o.Res.Panic == nil && o.Res.Err == nil && o.Res.Ack == nil {
			wt := wit(o)
			wt.Setup = wtn
			e.Res.Violate(fw.Violation{Property: "C14", Kind: "no-acknowledgement", Detail: "receive path returned no acknowledgement", Witness: wt})
		}
		if malformed && IsOrbiterReceiver(o.T.Receiver) && o.Success() {
			wt := wit(o)
			wt.Setup = wtn
			e.Res.Violate(fw.Violation{Property: "C14", Kind: "malformed-payload-accepted", Tags: map[string]string{"class": cls},
				Detail: "a malformed orbiter payload was acknowledged as success: " + cls, Witness: wt})
		}
	}

	// 1. every single-point mutation of every template memo.
	for _, tpl := range l.Templates() {
		for _, m := range MutateMemo(tpl) {
			idx++
			if !e.Mine(idx) {
				continue
			}
			t := l.NewTransfer(e.R, m.Denom, big.NewInt(1_000_000), nil)
			t.Memo = m.Memo
			if idx%8 == 3 {
				// the other valid spelling of the orbiter address: the same account, the same rules
				t.Receiver = strings.ToUpper(t.Receiver)
			}
			e.Log(map[string]any{"mut": m})
			ctx, _ := base.CacheContext()
			o := run.Do(w, ctx, t, modC)
			cls := m.Template + "|" + stripIdxAll(m.Site) + "|" + m.Kind
			judge(o, m.Malformed || m.Unroutable, cls, m)
			e.Res.Sig("memo|%s|%s|%s|%s", m.Template, m.Site, m.Kind, outcomeClass(o))
			if idx%5 == 0 && len(m.Memo) < 30000 {
				ctx, _ := base.CacheContext()
				oh := run.Do(w, ctx, t, modH)
				judge(oh, m.Malformed || m.Unroutable, cls, m)
				if outcomeClass(oh) != outcomeClass(o) && oh.Res.Err == nil {
					e.Res.Count("modeC-vs-H-outcome-differs")
				}
				e.Res.Count("cross-validated-in-mode-H")
			}
			if idx%977 == 0 {
				e.Res.Sample(map[string]any{"mutation": m.Kind, "site": m.Site, "template": m.Template, "memo": trunc(m.Memo, 300), "outcome": o.Res.String()})
			}
		}
	}
	// 2. packet data mutations.
	tpls := l.Templates()
	for pi, pair := range w.Channels {
		for _, dm := range DataMutations(l, pair, tpls[pi%len(tpls)].Spec.Memo()) {
			idx++
			if !e.Mine(idx) {
				continue
			}
			t := run.Transfer{Pair: pair, Denom: world.USDC, Amount: "1000000", Sender: w.K("bob").String(), Receiver: "?", RawData: dm.Data}
			e.Log(map[string]any{"data_mut": dm.Kind, "site": dm.Site, "data": string(dm.Data)})
			ctx, _ := base.CacheContext()
			o := run.Do(w, ctx, t, modC)
			judge(o, false, "", map[string]string{"site": dm.Site, "kind": dm.Kind})
			e.Res.Sig("data|%s|%s|%s", dm.Site, dm.Kind, outcomeClass(o))
			if len(dm.Data) < 30000 {
				ctx, _ := base.CacheContext()
				oh := run.Do(w, ctx, t, modH)
				judge(oh, false, "", map[string]string{"site": dm.Site, "kind": dm.Kind, "mode": "H"})
			}
			if idx%211 == 0 {
				e.Res.Sample(map[string]any{"data_mutation": dm.Kind, "site": dm.Site, "data": trunc(string(dm.Data), 300), "outcome": o.Res.String()})
			}
		}
	}
	// 3. random bytes, bit flips of valid data.
	n := e.N(3000, 400000)
	valid := l.NewTransfer(e.R, world.USDC, big.NewInt(1_000_000), &tpls[0].Spec).Data()
	for i := 0; i < n; i++ {
		var data []byte
		switch e.R.Intn(3) {
		case 0:
			data = make([]byte, e.R.Intn(300))
			e.R.Read(data)
		case 1:
			data = append([]byte(nil), valid...)
			for k := 0; k < 1+e.R.Intn(3); k++ {
				data[e.R.Intn(len(data))] ^= byte(1 << uint(e.R.Intn(8)))
			}
		default:
			data = append([]byte(nil), valid...)
			pos := e.R.Intn(len(data))
			ins := []string{"null", "{}", "[]", "\"\"", "-1", ",", ":", "}", "{", "\\u0000"}[e.R.Intn(10)]
			data = append(data[:pos], append([]byte(ins), data[pos:]...)...)
		}
		t := run.Transfer{Pair: w.Channels[0], Denom: world.USDC, Amount: "1000000", Sender: w.K("bob").String(), Receiver: "?", RawData: data}
		e.Log(map[string]any{"random_data": data})
		ctx, _ := base.CacheContext()
		o := run.Do(w, ctx, t, modC)
		judge(o, false, "", map[string]any{"random": true})
		if i%3 == 0 {
			e.Res.Sig("rand|%s", outcomeClass(o))
		}
	}
	// 4. attribute extremes through both modes.
	n = e.N(4000, 300000)
	for i := 0; i < n; i++ {
		t, hs := genHostile(e.R, l, 5)
		if e.R.Intn(5) == 0 {
			t.Spec.Passthrough = make([]byte, e.R.Intn(130))
		}
		e.Log(map[string]any{"transfer": t, "setup": hs})
		ctx, _ := base.CacheContext()
		applySetup(e.R, l, ctx, t, &hs, true)
		m := modC
		if i%2 == 0 {
			m = modH
		}
		o := run.Do(w, ctx, t, m)
		judge(o, false, "", hs)
		e.Res.Sig("attr|%s|%s|%s", hs.RouteCls, hs.FeeCls, outcomeClass(o))
		if i%3 == 0 {
			aftermath(e, l, ctx, t, hs)
		}
	}
	// 4b. a sample in real transactions: the relayer's batch [MsgSend, MsgRecvPacket] must not be
	// aborted by the receive path (a recovered panic fails the whole transaction: code 111222).
	if e.Shard < 4 || e.Thorough() {
		batchAbortSample(e)
	}
	// 5. envelopes: arbitrary port / channel identifiers (mode C only).
	ids := []string{"", "transfer", "channel-0", "channel-1", "channel-18446744073709551615", "channel-18446744073709551616",
		"channel--1", "channel-01", "x", strings.Repeat("c", 65), "channel-0/..", "CHANNEL-0", "channel-0 ", "07-tendermint-0", "💥"}
	mod := w.OrbiterStack()
	for _, sp := range []string{"transfer", "", "icahost", "x/y"} {
		for _, sc := range ids {
			for _, dc := range ids {
				idx++
				if !e.Mine(idx) {
					continue
				}
				denom := sp + "/" + sc + "/uusdc"
				data := world.ICS20(denom, "1000", w.K("bob").String(), OrbiterReceiver(), tpls[0].Spec.Memo())
				pkt := channeltypes.NewPacket(data, 1, sp, sc, "transfer", dc, w.FarTimeout(), 0)
				e.Log(map[string]any{"envelope": []string{sp, sc, dc}})
				ctx, _ := base.CacheContext()
				res := w.RecvC(ctx, mod, pkt)
				e.Res.Eval()
				o := &run.Obs{T: run.Transfer{Pair: world.ChannelPair{A: dc, B: sc}, Denom: world.USDC, Amount: "1000", Receiver: OrbiterReceiver(), RawData: data}, Res: res, Delta: &world.Delta{}}
				MonPanic(e.Res, o)
				if res.Panic == nil && res.Ack == nil {
					e.Res.Violate(fw.Violation{Property: "C14", Kind: "no-acknowledgement", Detail: fmt.Sprintf("no ack for envelope %q %q %q", sp, sc, dc)})
				}
				e.Res.Sig("env|%s|%s|%s|%v", sp, sc, dc, res.AckOK)
			}
		}
	}
}

func stripIdxAll(s string) string {
	var sb strings.Builder
	skip := false
	for _, c := range s {
		switch {
		case c == '[':
			skip = true
			sb.WriteString("[]")
		case c == ']':
			skip = false
		case !skip:
			sb.WriteRune(c)
		}
	}
	return sb.String()
}

func trunc(s string, n int) string {
	if len(s) > n {
		return s[:n] + "…"
	}
	return s
}

// batchAbortSample delivers hostile packets in real signed transactions that also carry another
// message of the relayer, on a fresh world.
func batchAbortSample(e *fw.Env) {
	l, err := NewLab(world.Config{})
	if err != nil {
		e.Res.Inconc("world: %v", err)
		return
	}
	w := l.W
	rel := w.K("relayer")
	var memos []string
	for _, tpl := range l.Templates() {
		muts := MutateMemo(tpl)
		for k := 0; k < 12; k++ {
			m := muts[e.R.Intn(len(muts))]
			if len(m.Memo) < 5000 {
				memos = append(memos, m.Memo)
			}
		}
	}
	memos = append(memos, MultiDefectMemos(l)[:10]...)
	n := 40
	if e.Thorough() {
		n = 400
	}
	for i := 0; i < n; i++ {
		var t run.Transfer
		if i%2 == 0 {
			t = l.NewTransfer(e.R, world.USDC, big.NewInt(1_000_000), nil)
			t.Memo = memos[e.R.Intn(len(memos))]
		} else {
			t, _ = genHostile(e.R, l, 5)
			if t.Denom == world.BIG {
				continue
			}
		}
		pkt := w.ForgePacket(w.Ctx(), t.Pair, t.Data())
		send := &banktypes.MsgSend{FromAddress: rel.String(), ToAddress: w.K("dave").String(), Amount: sdk.NewCoins(sdk.NewCoin(world.STAKE, sdkmath.NewInt(1)))}
		e.Log(map[string]any{"batch_tx": t})
		res, err := w.RecvT(pkt, send)
		if err != nil {
			e.Res.Inconc("deliver: %v", err)
			return
		}
		e.Res.Eval()
		if res.Code != 0 {
			kind := "relayer-batch-failed"
			if res.Panic != nil {
				kind = "relayer-batch-aborted-by-panic"
			}
			e.Res.Violate(fw.Violation{Property: "C14", Kind: kind, Detail: fmt.Sprintf("transaction [MsgSend, MsgRecvPacket] failed: %v", res.Err),
				Witness: map[string]any{"transfer": t, "log": trunc(res.Log, 800)}})
			continue
		}
		if res.Ack == nil {
			e.Res.Violate(fw.Violation{Property: "C14", Kind: "no-acknowledgement", Detail: "no acknowledgement written in a real transaction", Witness: t})
			continue
		}
		e.Res.Sig("T-batch|%v", res.AckOK)
	}
}
