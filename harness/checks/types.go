package checks

import sdk "github.com/cosmos/cosmos-sdk/types"

type sdkCtx = sdk.Context
