package checks

import (
	abci "github.com/cometbft/cometbft/abci/types"

	sdk "github.com/cosmos/cosmos-sdk/types"
)

type sdkCtx = sdk.Context

type abciAttr = abci.EventAttribute
