package checks

import (
	"fmt"
	"math/big"
	"math/rand"

	sdkmath "cosmossdk.io/math"

	actionctrl "github.com/noble-assets/orbiter/v2/controller/action"
	actiontypes "github.com/noble-assets/orbiter/v2/types/controller/action"

	"orbverif/fw"
	"orbverif/model"
	"orbverif/run"
	"orbverif/spec"
	"orbverif/world"
)

// genBoundaryFees draws fee lists aimed at the boundaries of C04.
func genBoundaryFees(r *rand.Rand, w *world.World, a *big.Int) ([]spec.Fee, string) {
	rc := FeeRecipients(w)
	one := big.NewInt(1)
	switch r.Intn(14) {
	case 0: // total == A (must refuse)
		if a.Cmp(big.NewInt(2)) < 0 {
			return []spec.Fee{{Recipient: rc[0], Amount: a.String()}}, "total==A"
		}
		h := new(big.Int).Rsh(a, 1)
		return []spec.Fee{{Recipient: rc[0], Amount: h.String()}, {Recipient: rc[1], Amount: new(big.Int).Sub(a, h).String()}}, "total==A"
	case 1: // total == A-1 (must succeed)
		if a.Cmp(big.NewInt(2)) < 0 {
			return nil, "none"
		}
		return []spec.Fee{{Recipient: rc[0], Amount: new(big.Int).Sub(a, one).String()}}, "total==A-1"
	case 2: // bps 10000 alone: fee == A -> refuse
		return []spec.Fee{{Recipient: rc[2], IsBPS: true, BPS: 10000}}, "bps10000"
	case 3: // 5000+5000
		return []spec.Fee{{Recipient: rc[2], IsBPS: true, BPS: 5000}, {Recipient: rc[3], IsBPS: true, BPS: 5000}}, "bps5000x2"
	case 4: // six entries
		var f []spec.Fee
		for i := 0; i < 6; i++ {
			f = append(f, spec.Fee{Recipient: rc[i], IsBPS: true, BPS: 1})
		}
		return f, "six"
	case 5: // five entries, repeated recipient
		var f []spec.Fee
		for i := 0; i < 5; i++ {
			f = append(f, spec.Fee{Recipient: rc[0], IsBPS: true, BPS: uint64(1 + r.Intn(1500))})
		}
		return f, "five-same-recipient"
	case 6: // two fixed amounts of 2^255: sum overflows 256 bits
		return []spec.Fee{{Recipient: rc[0], Amount: pow2(255).String()}, {Recipient: rc[1], Amount: pow2(255).String()}}, "sum-overflow"
	case 7:
		return []spec.Fee{{Recipient: rc[0], Amount: MaxU256.String()}, {Recipient: rc[1], IsBPS: true, BPS: 1}}, "max+bps"
	case 8:
		return []spec.Fee{{Recipient: rc[0], Amount: MaxU256.String()}, {Recipient: rc[1], Amount: "1"}}, "max+1"
	case 9: // bps that rounds to zero
		return []spec.Fee{{Recipient: rc[4], IsBPS: true, BPS: 1}}, "bps1"
	case 10: // compounding probe: two large bps
		return []spec.Fee{{Recipient: rc[0], IsBPS: true, BPS: 3333}, {Recipient: rc[1], IsBPS: true, BPS: 3333}, {Recipient: rc[2], IsBPS: true, BPS: 3333}}, "bps3333x3"
	case 11:
		return []spec.Fee{{Recipient: rc[0], IsBPS: true, BPS: 0}}, "bps0"
	case 12:
		return []spec.Fee{{Recipient: rc[0], IsBPS: true, BPS: 10001}}, "bps10001"
	default:
		return []spec.Fee{{Recipient: rc[0], IsBPS: true, BPS: 9999}, {Recipient: rc[0], Amount: "1"}}, "bps9999+1"
	}
}

// judgeFees compares the observed outcome of a fee transfer on a calibrated destination (nothing
// paused) with the model.
func judgeFees(res *fw.Result, o *run.Obs, a *big.Int, cls string) {
	if o.Res.Panic != nil || o.Res.Err != nil || o.Res.Ack == nil {
		return
	}
	fr := model.Fees(a, o.T.Spec.Fees)
	tags := map[string]string{"class": cls}
	switch {
	case o.Success() && fr.Verdict == model.MustRefuse:
		res.Violate(fw.Violation{Property: "C04", Kind: "invalid-fee-list-accepted", Tags: tags,
			Detail: "fee list that must be refused (" + fr.Reason + ") was executed", Witness: wit(o)})
	case !o.Success() && fr.Verdict == model.MustSucceed:
		res.Violate(fw.Violation{Property: "C04", Kind: "valid-fee-list-refused", Tags: tags,
			Detail: "valid fee list refused: " + o.Res.AckErr, Witness: wit(o)})
	case o.Success() && fr.Forward == nil:
		// executed, but the model has no exact value (ambiguous spelling): nothing to compare
	case o.Success():
		exp := ExpectedDelta(o, fr)
		if !exp.Equal(o.Delta) {
			w := wit(o)
			w.Expected = exp.String()
			res.Violate(fw.Violation{Property: "C04", Kind: "fee-amounts-differ-from-model", Tags: tags,
				Detail: fmt.Sprintf("credits differ from floor(A*bps/10000)/fixed amounts: got {%s} want {%s}", o.Delta, exp), Witness: w})
		}
	default:
		// refused: nothing may have been paid
		if len(o.Delta.Bal) != 0 {
			res.Violate(fw.Violation{Property: "C04", Kind: "fees-paid-on-refusal", Tags: tags,
				Detail: "ledger changed although the transfer was refused: " + o.Delta.String(), Witness: wit(o)})
		}
	}
}

// CheckC04 runs the fee model end-to-end and on direct calls of the exported fee functions.
func CheckC04(e *fw.Env, l *Lab) {
	w := l.W
	n := e.N(4000, 150000)
	for i := 0; i < n; i++ {
		// internal / hyperlane destinations (no CCTP burn limit), big amounts on ubig
		denom := []string{world.BIG, world.BIG, world.USDC, world.USDN}[e.R.Intn(4)]
		var d Dest
		for {
			d = l.PickDest(e.R, denom)
			if d.Proto != 2 || e.R.Intn(4) == 0 {
				break
			}
		}
		a := GenAmount(e.R, d.Max)
		var fees []spec.Fee
		cls := ""
		switch e.R.Intn(3) {
		case 0:
			fees, cls = genBoundaryFees(e.R, w, a)
		case 1:
			fees = GenAnyFees(e.R, w, a)
			cls = fmt.Sprintf("any%d", len(fees))
		default:
			fees, _ = GenValidFees(e.R, w, a)
			cls = fmt.Sprintf("valid%d", len(fees))
		}
		s := &spec.Spec{HasFee: true, Fees: fees, Route: d.Make(e.R)}
		t := l.NewTransfer(e.R, denom, a, s)
		e.Log(map[string]any{"transfer": t, "class": cls})
		ctx, _ := l.Base.CacheContext()
		o := run.Do(w, ctx, t, run.Mode{Kind: "H"})
		e.Res.Eval()
		fr := model.Fees(a, fees)
		e.Res.Count("verdict:" + fr.Verdict.String() + "/" + outcomeClass(o))
		Universal(e.Res, o)
		judgeFees(e.Res, o, a, cls)
		e.Res.Sig("%s|%s|%s|%s|bits%d", d.Name, cls, fr.Verdict, outcomeClass(o), a.BitLen()/32)
		if i < 4 {
			e.Res.Sample(map[string]any{"amount": a.String(), "fees": fees, "verdict": fr.Verdict.String(), "reason": fr.Reason, "outcome": o.Res.String(), "delta": o.Delta.String()})
		}
	}
	// complete boundary grid: amount edges x bps edges x fixed edge x list length, on ubig internal
	var dest Dest
	for _, d := range l.DestsFor(world.BIG) {
		if d.Proto == 4 {
			dest = d
			break
		}
	}
	idx := 0
	rc := FeeRecipients(w)
	for _, a := range AmountEdges() {
		for _, bps := range append(append([]uint64{}, bpsEdges...), bpsBad...) {
			for length := 1; length <= 6; length++ {
				idx++
				if !e.Mine(idx) || dest.Make == nil {
					continue
				}
				var fees []spec.Fee
				for k := 0; k < length; k++ {
					fees = append(fees, spec.Fee{Recipient: rc[k%len(rc)], IsBPS: true, BPS: bps})
				}
				s := &spec.Spec{HasFee: true, Fees: fees, Route: dest.Make(e.R)}
				t := l.NewTransfer(e.R, world.BIG, a, s)
				e.Log(map[string]any{"transfer": t, "grid": true})
				ctx, _ := l.Base.CacheContext()
				o := run.Do(w, ctx, t, run.Mode{Kind: "H"})
				e.Res.Eval()
				Universal(e.Res, o)
				judgeFees(e.Res, o, a, fmt.Sprintf("grid-bps%d-x%d", bps, length))
				e.Res.Sig("grid|%s|bps%d|x%d|%s", a, bps, length, outcomeClass(o))
			}
		}
	}
	// direct calls of the exported arithmetic for volume.
	nd := e.N(200000, 5000000)
	fc := &actionctrl.FeeController{}
	for i := 0; i < nd; i++ {
		a := GenAmount(e.R, MaxU256)
		var fees []spec.Fee
		if e.R.Intn(2) == 0 {
			fees = GenAnyFees(e.R, w, a)
		} else {
			fees, _ = genBoundaryFees(e.R, w, a)
		}
		e.Res.Eval()
		directFeeCase(e, fc, a, fees)
	}
}

func toFeeInfos(fees []spec.Fee) []*actiontypes.FeeInfo {
	var out []*actiontypes.FeeInfo
	for _, f := range fees {
		fi := &actiontypes.FeeInfo{Recipient: f.Recipient}
		if f.IsBPS {
			fi.FeeType = &actiontypes.FeeInfo_BasisPoints_{BasisPoints: &actiontypes.FeeInfo_BasisPoints{Value: uint32(f.BPS)}}
		} else {
			fi.FeeType = &actiontypes.FeeInfo_Amount_{Amount: &actiontypes.FeeInfo_Amount{Value: f.Amount}}
		}
		out = append(out, fi)
	}
	return out
}

func directFeeCase(e *fw.Env, fc *actionctrl.FeeController, a *big.Int, fees []spec.Fee) {
	for _, f := range fees {
		if f.IsBPS && f.BPS > 4294967295 {
			return
		}
	}
	infos := toFeeInfos(fees)
	attr := &actiontypes.FeeAttributes{FeesInfo: infos}
	fr := model.Fees(a, fees)
	verr := attr.Validate()
	witness := map[string]any{"amount": a.String(), "fees": fees}
	// validity of the list itself (independent of A): count, bps range, amount, recipient.
	listInvalid := fr.Verdict == model.MustRefuse && fr.Reason != "sum not strictly below amount" && fr.Reason != "sum overflows"
	if verr == nil && listInvalid {
		e.Res.Violate(fw.Violation{Property: "C04", Kind: "validate-accepts-invalid-list", Tags: map[string]string{"reason": fr.Reason},
			Detail: "FeeAttributes.Validate accepted a list the model refuses: " + fr.Reason, Witness: witness})
		return
	}
	if verr != nil {
		if fr.Verdict == model.MustSucceed {
			e.Res.Violate(fw.Violation{Property: "C04", Kind: "validate-refuses-valid-list", Detail: "Validate refused a valid list: " + verr.Error(), Witness: witness})
		}
		e.Res.Sig("direct|refused|%s", fr.Reason)
		return
	}
	var got *actiontypes.FeesToDistribute
	var cerr error
	var pv any
	func() {
		defer func() { pv = recover() }()
		got, cerr = fc.ComputeFeesToDistribute(sdkmath.NewIntFromBigInt(a), "uusdc", infos)
	}()
	if pv != nil {
		e.Res.Violate(fw.Violation{Property: "C04", Kind: "compute-fees-panics", Detail: fmt.Sprintf("ComputeFeesToDistribute panicked on a validated list: %v", pv), Witness: witness})
		return
	}
	if cerr != nil {
		if fr.Verdict == model.MustSucceed {
			e.Res.Violate(fw.Violation{Property: "C04", Kind: "compute-refuses-valid-list", Detail: "ComputeFeesToDistribute refused: " + cerr.Error(), Witness: witness})
		}
		e.Res.Sig("direct|compute-error|%s", fr.Verdict)
		return
	}
	if fr.PerEntry == nil {
		// refused by the sum rules, which live in HandlePacket: the model has no per-entry values
		// unless recomputed; recompute without the sum rule.
		e.Res.Sig("direct|sum-rule")
		return
	}
	// compare values
	k := 0
	total := new(big.Int)
	for i := range fees {
		if fr.PerEntry[i] == nil {
			continue
		}
		if k >= len(got.Values) || got.Values[k].Amount.AmountOf("uusdc").BigInt().Cmp(fr.PerEntry[i]) != 0 ||
			got.Values[k].Recipient.String() != canonAddr(fees[i].Recipient) {
			e.Res.Violate(fw.Violation{Property: "C04", Kind: "compute-fees-differ-from-model",
				Detail: fmt.Sprintf("entry %d: model %s", i, fr.PerEntry[i]), Witness: witness})
			return
		}
		total.Add(total, fr.PerEntry[i])
		k++
	}
	if k != len(got.Values) || got.Total.BigInt().Cmp(total) != 0 {
		e.Res.Violate(fw.Violation{Property: "C04", Kind: "compute-fees-differ-from-model", Detail: "entry count or total differs", Witness: witness})
		return
	}
	e.Res.Sig("direct|ok|n%d|bits%d", len(fees), a.BitLen()/64)
}
