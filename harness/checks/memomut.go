package checks

import (
	"fmt"
	"strings"

	"orbverif/jm"
	"orbverif/spec"
	"orbverif/world"
)

// MemoMut is one hostile memo derived from a valid template.
type MemoMut struct {
	Template  string `json:"template"`
	Site      string `json:"site"`
	Kind      string `json:"kind"`
	Memo      string `json:"memo"`
	Malformed bool   `json:"malformed"` // certainly not a well-formed orbiter payload
	// Unroutable: the parser may accept it, but the transfer cannot be executed (the forwarding
	// or the fee names no destination): end to end it must be refused
	Unroutable bool   `json:"unroutable,omitempty"`
	Denom      string `json:"denom"`
}

// MemoTemplate is a valid payload used as mutation seed.
type MemoTemplate struct {
	Name  string
	Denom string
	Spec  spec.Spec
}

// Templates returns the valid payloads mutations are derived from.
func (l *Lab) Templates() []MemoTemplate {
	w := l.W
	rc := FeeRecipients(w)
	gl := "250000"
	caller := make([]byte, 32)
	caller[31] = 7
	mint := make([]byte, 32)
	mint[31] = 9
	out := []MemoTemplate{
		{"internal", world.USDC, spec.Spec{Route: spec.Route{Kind: "internal", To: w.K("rcpt1").String()}}},
		{"cctp+caller+bps", world.USDC, spec.Spec{HasFee: true, Fees: []spec.Fee{{Recipient: rc[0], IsBPS: true, BPS: 100}},
			Route: spec.Route{Kind: "cctp", Domain: 0, MintRecipient: mint, Caller: caller}}},
		{"cctp+5fees", world.USDC, spec.Spec{HasFee: true, Fees: []spec.Fee{
			{Recipient: rc[0], IsBPS: true, BPS: 1}, {Recipient: rc[1], Amount: "5"}, {Recipient: rc[2], IsBPS: true, BPS: 250},
			{Recipient: rc[3], Amount: "77"}, {Recipient: rc[0], IsBPS: true, BPS: 10}},
			Route: spec.Route{Kind: "cctp", Domain: 2, MintRecipient: mint}}},
	}
	if !w.Cfg.SkipHyperlane {
		out = append(out, MemoTemplate{"hyp-full+2fees+pt", world.USDN, spec.Spec{HasFee: true,
			Fees: []spec.Fee{{Recipient: rc[4], Amount: "3"}, {Recipient: rc[5], IsBPS: true, BPS: 9}},
			Route: spec.Route{Kind: "hyp", Domain: 1, TokenID: w.Hyp.TokenUSDN.Bytes(), Recipient: mint,
				HookID: w.Hyp.NoopHook.Bytes(), Metadata: "0x00ff", GasLimit: &gl,
				MaxFee: &spec.Coin{Denom: world.USDN, Amount: "1000000"}},
			Passthrough: []byte("hello")}})
	}
	return out
}

func certainMalformed(site jm.Site, kind string) bool {
	name := site.Name
	structural := map[string]bool{
		"orbiter": true, "orbiter.forwarding": true, "orbiter.forwarding.attributes": true,
		"orbiter.forwarding.attributes.@type": true,
	}
	switch kind {
	case "delete", "null":
		if structural[name] {
			return true
		}
		if site.Parent == jm.Arr && kind == "null" && (strings.HasSuffix(stripIdx(name), "pre_actions") || strings.HasSuffix(stripIdx(name), "fees_info")) {
			return true
		}
		if strings.HasSuffix(name, ".attributes") || strings.HasSuffix(name, ".@type") {
			return true
		}
	case "num0", "true", "str":
		if site.Kind == jm.Obj || site.Kind == jm.Arr {
			return true // an object or list replaced by a scalar
		}
	case "arr-empty", "arr-wrap":
		if site.Kind == jm.Obj {
			return true // an object replaced by a list
		}
	case "obj-empty", "obj-unknown":
		if site.Kind == jm.Arr {
			return true
		}
		if kind == "obj-unknown" && site.Kind == jm.Obj {
			return true
		}
	case "unknown-key", "unknown-key-null":
		return true
	case "append-num", "append-str":
		return true
	case "append-null":
		return true
	}
	return false
}

func stripIdx(s string) string {
	if i := strings.LastIndex(s, "["); i >= 0 && strings.HasSuffix(s, "]") {
		return s[:i]
	}
	return s
}

// MutateMemo enumerates every single-point mutation of the template memo.
func MutateMemo(tpl MemoTemplate) []MemoMut {
	root, err := jm.Parse(tpl.Spec.Memo())
	if err != nil {
		panic(err)
	}
	var out []MemoMut
	add := func(site jm.Site, kind string, doc *jm.Node) {
		unroutable := false
		if kind == "delete" || kind == "null" || kind == "strempty" {
			switch site.Key {
			case "recipient", "mint_recipient", "token_id":
				unroutable = true
			}
		}
		out = append(out, MemoMut{Template: tpl.Name, Site: site.Name, Kind: kind, Memo: doc.String(),
			Malformed: certainMalformed(site, kind), Unroutable: unroutable, Denom: tpl.Denom})
	}
	for _, st := range jm.Sites(root) {
		if len(st.Path) == 0 {
			continue
		}
		orig, _ := jm.At(root, st.Path)
		add(st, "delete", jm.Delete(root, st.Path))
		repl := map[string]*jm.Node{
			"null":        jm.N(jm.Null),
			"num0":        jm.Number("0"),
			"num-1":       jm.Number("-1"),
			"numbig":      jm.Number("340282366920938463463374607431768211456"),
			"numfloat":    jm.Number("1.5e3"),
			"str":         jm.S("x"),
			"strempty":    jm.S(""),
			"true":        jm.Boolean(true),
			"arr-empty":   jm.Array(),
			"arr-wrap":    jm.Array(orig.Clone()),
			"obj-empty":   jm.Object(),
			"obj-unknown": jm.RawText(`{"zz":1}`),
			"deep200":     jm.Deep(200),
		}
		for _, k := range sortedKeys(repl) {
			add(st, k, jm.Replace(root, st.Path, repl[k]))
		}
		if st.Parent == jm.Obj {
			// duplicate key, both orders
			parentPath := st.Path[:len(st.Path)-1]
			add(st, "dup-key-null-after", jm.InsertKey(root, parentPath, st.Key, jm.N(jm.Null), false))
			add(st, "dup-key-null-before", jm.InsertKey(root, parentPath, st.Key, jm.N(jm.Null), true))
			add(st, "dup-key-same", jm.InsertKey(root, parentPath, st.Key, orig.Clone(), false))
		}
		if st.Kind == jm.Obj && st.Key == "attributes" {
			// the whole attributes object replaced by a WELL-FORMED object of another type: only a
			// type registered for that interface (forwarding / action attributes) may be accepted
			inAction := strings.Contains(st.Name, "pre_actions")
			for name, obj := range wellFormedAttrs() {
				m := MemoMut{Template: tpl.Name, Site: st.Name, Kind: "attrs=" + name, Memo: jm.Replace(root, st.Path, jm.RawText(obj)).String(), Denom: tpl.Denom}
				switch {
				case inAction && name != "fee":
					m.Malformed = true
				case !inAction && (name == "fee" || name == "msgsend" || name == "payload"):
					m.Malformed = true
				}
				out = append(out, m)
			}
		}
		if st.Kind == jm.Obj {
			// the other member of a oneof next to the one that is set (FeeInfo.fee_type): which
			// member ends up in the payload must not vary between parses
			other := map[string][]string{
				"basis_points": {"amount", `{"value":"7"}`}, "amount": {"basis_points", `{"value":100}`},
			}
			for _, k := range orig.Keys {
				if o, ok := other[k]; ok {
					for _, front := range []bool{false, true} {
						add(st, fmt.Sprintf("oneof-other-member:%s,front=%v", o[0], front), jm.InsertKey(root, st.Path, o[0], jm.RawText(o[1]), front))
					}
					add(st, "oneof-other-member-null:"+o[0], jm.InsertKey(root, st.Path, o[0], jm.N(jm.Null), false))
					camel := map[string]string{"basis_points": "basisPoints", "amount": "amount"}[o[0]]
					add(st, "oneof-other-member-camel:"+camel, jm.InsertKey(root, st.Path, camel, jm.RawText(o[1]), false))
				}
			}
		}
		switch st.Kind {
		case jm.Obj:
			add(st, "unknown-key", jm.InsertKey(root, st.Path, "zz_unknown", jm.Number("1"), false))
			add(st, "unknown-key-null", jm.InsertKey(root, st.Path, "zz_unknown", jm.N(jm.Null), true))
		case jm.Arr:
			add(st, "append-null", jm.AppendElem(root, st.Path, jm.N(jm.Null)))
			add(st, "append-num", jm.AppendElem(root, st.Path, jm.Number("7")))
			add(st, "append-str", jm.AppendElem(root, st.Path, jm.S("x")))
			add(st, "append-obj-empty", jm.AppendElem(root, st.Path, jm.Object()))
			if len(orig.Vals) > 0 {
				add(st, "append-dup", jm.AppendElem(root, st.Path, orig.Vals[0].Clone()))
			}
		case jm.Str:
			var alts []string
			switch {
			case st.Key == "@type":
				alts = []string{spec.TypeFee, spec.TypeCCTP, spec.TypeInternal, spec.TypeHyp,
					"/cosmos.bank.v1beta1.MsgSend", "/noble.orbiter.core.v1.Payload", "/x.y.Z", "noble.orbiter.controller.forwarding.v1.CCTPAttributes", "/"}
			case st.Key == "protocol_id" || st.Key == "id":
				alts = []string{"PROTOCOL_UNSUPPORTED", "PROTOCOL_IBC", "PROTOCOL_CCTP", "PROTOCOL_HYPERLANE", "PROTOCOL_INTERNAL",
					"ACTION_UNSUPPORTED", "ACTION_FEE", "ACTION_SWAP", "protocol_cctp", "5", "-1"}
			default:
				alts = []string{strings.Repeat("A", 33000), "\u0000", "\\", "💥", "-1", "0x10", "1e3"}
			}
			for i, a := range alts {
				add(st, fmt.Sprintf("str-alt%d", i), jm.Replace(root, st.Path, jm.S(a)))
			}
			if st.Key == "protocol_id" || st.Key == "id" {
				for _, nmb := range []string{"0", "1", "2", "3", "4", "5", "99", "-1", "2147483647", "2147483648", "4294967298"} {
					add(st, "enum-num-"+nmb, jm.Replace(root, st.Path, jm.Number(nmb)))
				}
			}
		}
	}
	// whole-document cases
	rootSite := jm.Site{Name: "$"}
	doc := tpl.Spec.Memo()
	whole := map[string]string{
		"empty": "", "null": "null", "arr": "[]", "str": `"orbiter"`, "num": "1", "obj-empty": "{}",
		"orbiter-null": `{"orbiter":null}`, "orbiter-empty": `{"orbiter":{}}`, "orbiter-arr": `{"orbiter":[]}`,
		"extra-root-key":        `{"orbiter":` + tpl.Spec.PayloadJSON() + `,"forward":{"receiver":"x"}}`,
		"extra-root-key-before": `{"wasm":{},"orbiter":` + tpl.Spec.PayloadJSON() + `}`,
		"dup-root-key":          `{"orbiter":` + tpl.Spec.PayloadJSON() + `,"orbiter":` + tpl.Spec.PayloadJSON() + `}`,
		"dup-root-key-null":     `{"orbiter":null,"orbiter":` + tpl.Spec.PayloadJSON() + `}`,
		"root-in-array":         `[` + doc + `]`,
		"trailing-garbage":      doc + `x`,
		"trailing-doc":          doc + doc,
		"bom":                   "\ufeff" + doc,
		"upper-key":             strings.Replace(doc, `"orbiter"`, `"ORBITER"`, 1),
		"deep-12000":            `{"orbiter":` + strings.Repeat("[", 12000) + strings.Repeat("]", 12000) + `}`,
		"deep-obj-5000":         strings.Repeat(`{"orbiter":`, 5000) + "1" + strings.Repeat("}", 5000),
		"pad-32k":               `{"orbiter":` + tpl.Spec.PayloadJSON() + strings.Repeat(" ", 32000) + `}`,
		// characters Unicode calls white space and JSON does not: the padded text is not a JSON document
		"pad-vt-before":    "\v" + doc,
		"pad-ff-after":     doc + "\f",
		"pad-nel-before":   "\u0085" + doc,
		"pad-nbsp-before":  "\u00a0" + doc,
		"pad-u2028-after":  doc + "\u2028",
		"pad-u3000-both":   "\u3000" + doc + "\u3000",
		"pad-u200a-inside": strings.Replace(doc, `{"orbiter":`, "{\u200a\"orbiter\":", 1),
		// JSON's own white space around the object is part of the grammar
		"pad-json-ws-both": " \t\r\n" + doc + "\n \t",
	}
	for _, k := range sortedKeysS(whole) {
		mal := true
		if k == "pad-32k" || k == "dup-root-key" || k == "dup-root-key-null" || k == "bom" || k == "pad-json-ws-both" {
			mal = false
		}
		out = append(out, MemoMut{Template: tpl.Name, Site: rootSite.Name, Kind: "doc-" + k, Memo: whole[k], Malformed: mal, Denom: tpl.Denom})
	}
	for cut := 1; cut < len(doc); cut += 1 + len(doc)/40 {
		out = append(out, MemoMut{Template: tpl.Name, Site: "$", Kind: fmt.Sprintf("truncate@%d", cut), Memo: doc[:cut], Malformed: true, Denom: tpl.Denom})
	}
	return out
}

func sortedKeys(m map[string]*jm.Node) []string {
	out := make([]string, 0, len(m))
	for k := range m {
		out = append(out, k)
	}
	sortStrings(out)
	return out
}

func sortedKeysS(m map[string]string) []string {
	out := make([]string, 0, len(m))
	for k := range m {
		out = append(out, k)
	}
	sortStrings(out)
	return out
}

// wellFormedAttrs are complete, well-formed attribute objects of every type the codec knows.
func wellFormedAttrs() map[string]string {
	return map[string]string{
		"fee":      `{"@type":"` + spec.TypeFee + `","fees_info":[]}`,
		"cctp":     `{"@type":"` + spec.TypeCCTP + `","destination_domain":0,"mint_recipient":"AAAAAAAAAAAAAAAAAAAAAAAAAAAAAAAAAAAAAAAAAAk=","destination_caller":""}`,
		"internal": `{"@type":"` + spec.TypeInternal + `","recipient":"noble1fzc80nmfyks7veg76p436gfcz7qrjju9ynpx72"}`,
		"msgsend":  `{"@type":"/cosmos.bank.v1beta1.MsgSend","from_address":"noble1fzc80nmfyks7veg76p436gfcz7qrjju9ynpx72","to_address":"noble1fzc80nmfyks7veg76p436gfcz7qrjju9ynpx72","amount":[]}`,
		"payload":  `{"@type":"/noble.orbiter.core.v1.Payload","pre_actions":[]}`,
	}
}

// MultiDefectMemos are payloads with two or more independent defects (each of a different error
// class), so that WHICH error is reported depends on the order in which the code looks.
func MultiDefectMemos(l *Lab) []string {
	w := l.W
	fee := `{"@type":"` + spec.TypeFee + `","fees_info":[{"recipient":"` + w.K("fee1").String() + `","basis_points":{"value":10}}]}`
	fwd := `"forwarding":{"protocol_id":"PROTOCOL_INTERNAL","attributes":{"@type":"` + spec.TypeInternal + `","recipient":"` + w.K("rcpt1").String() + `"}}`
	acts := []string{
		`{"id":"ACTION_FEE"}`,                          // attributes missing
		`{"attributes":` + fee + `}`,                   // id missing (unsupported)
		`{"id":"ACTION_SWAP","attributes":null}`,       // attributes null
		`{"id":2}`,                                     // swap, attributes missing
		`{"id":0,"attributes":` + fee + `}`,            // unsupported id
		`{"id":"ACTION_FEE","attributes":` + fee + `}`, // valid
	}
	var out []string
	for i, a := range acts {
		for j, b := range acts {
			if i == j {
				continue
			}
			out = append(out, `{"orbiter":{"pre_actions":[`+a+`,`+b+`],`+fwd+`}}`)
			// and with a defective forwarding on top
			out = append(out, `{"orbiter":{"pre_actions":[`+a+`,`+b+`],"forwarding":{"protocol_id":"PROTOCOL_INTERNAL"}}}`)
		}
	}
	// several unknown fields at once, at several levels
	out = append(out,
		`{"orbiter":{"zz1":1,"zz2":2,"zz3":3,`+fwd+`}}`,
		`{"orbiter":{"forwarding":{"protocol_id":"PROTOCOL_INTERNAL","aa":1,"bb":2,"cc":3,"attributes":{"@type":"`+spec.TypeInternal+`","recipient":"x","q1":1,"q2":2}}}}`,
		`{"orbiter":{"forwarding":{"protocol_id":"PROTOCOL_CCTP","attributes":{"@type":"`+spec.TypeHyp+`","destination_domain":0,"mint_recipient":"AA==","destination_caller":"AA==","zz":1}}}}`,
	)
	return out
}

// DoubleMutations applies a second single-point mutation to a sample of single-point mutants.
func DoubleMutations(tpl MemoTemplate, pick func(n int) int, n int) []MemoMut {
	first := MutateMemo(tpl)
	var out []MemoMut
	for k := 0; k < n; k++ {
		m1 := first[pick(len(first))]
		if len(m1.Memo) > 3000 {
			continue
		}
		root, err := jm.Parse(m1.Memo)
		if err != nil || root.Kind != jm.Obj {
			continue
		}
		sites := jm.Sites(root)
		if len(sites) < 2 {
			continue
		}
		st := sites[1+pick(len(sites)-1)]
		var doc *jm.Node
		kind := ""
		switch pick(5) {
		case 0:
			doc, kind = jm.Delete(root, st.Path), "delete"
		case 1:
			doc, kind = jm.Replace(root, st.Path, jm.N(jm.Null)), "null"
		case 2:
			doc, kind = jm.Replace(root, st.Path, jm.Number("0")), "num0"
		case 3:
			doc, kind = jm.Replace(root, st.Path, jm.S("x")), "str"
		default:
			if st.Kind == jm.Obj {
				doc, kind = jm.InsertKey(root, st.Path, "yy_unknown", jm.Number("2"), true), "unknown-key"
			} else {
				doc, kind = jm.Replace(root, st.Path, jm.Object()), "obj-empty"
			}
		}
		out = append(out, MemoMut{Template: tpl.Name, Site: m1.Site + "&" + st.Name, Kind: m1.Kind + "&" + kind, Memo: doc.String(), Denom: tpl.Denom})
	}
	return out
}
