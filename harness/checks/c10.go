package checks

import (
	"fmt"
	"math/rand"
	"reflect"
	"sort"
	"strings"

	msgv1 "cosmossdk.io/api/cosmos/msg/v1"
	"cosmossdk.io/log"
	authcodec "github.com/cosmos/cosmos-sdk/codec/address"
	"github.com/cosmos/cosmos-sdk/runtime"
	sdk "github.com/cosmos/cosmos-sdk/types"
	gogoproto "github.com/cosmos/gogoproto/proto"
	"google.golang.org/protobuf/proto"
	"google.golang.org/protobuf/reflect/protoreflect"

	"github.com/noble-assets/orbiter/v2/keeper"
	adaptertypes "github.com/noble-assets/orbiter/v2/types/component/adapter"
	executortypes "github.com/noble-assets/orbiter/v2/types/component/executor"
	forwardertypes "github.com/noble-assets/orbiter/v2/types/component/forwarder"

	"orbverif/fw"
	"orbverif/world"
)

// RPC is one Msg RPC of the module discovered at run time.
type RPC struct {
	Service string
	Method  string
	Input   string // full name of the request type
	Signer  string // proto field name of the signer
	GoType  reflect.Type
}

// DiscoverMsgRPCs enumerates every method of every service named Msg in a noble.orbiter package
// from the protobuf registry of the running binary.
func DiscoverMsgRPCs() []RPC {
	var out []RPC
	gogoproto.HybridResolver.RangeFiles(func(fd protoreflect.FileDescriptor) bool {
		if !strings.HasPrefix(string(fd.Package()), "noble.orbiter") {
			return true
		}
		svcs := fd.Services()
		for i := 0; i < svcs.Len(); i++ {
			sd := svcs.Get(i)
			if sd.Name() != "Msg" {
				continue
			}
			ms := sd.Methods()
			for j := 0; j < ms.Len(); j++ {
				md := ms.Get(j)
				in := md.Input()
				r := RPC{Service: string(sd.FullName()), Method: string(md.Name()), Input: string(in.FullName())}
				if signers, ok := proto.GetExtension(in.Options(), msgv1.E_Signer).([]string); ok && len(signers) > 0 {
					r.Signer = signers[0]
				}
				if t := gogoproto.MessageType(r.Input); t != nil {
					r.GoType = t
				}
				out = append(out, r)
			}
		}
		return true
	})
	sort.Slice(out, func(i, j int) bool { return out[i].Service+out[i].Method < out[j].Service+out[j].Method })
	return out
}

var stringPool = []string{"PROTOCOL_CCTP", "PROTOCOL_HYPERLANE", "PROTOCOL_INTERNAL", "PROTOCOL_IBC", "ACTION_FEE", "ACTION_SWAP",
	"0", "1", "5", "noble", "channel-0", "", "x", "PROTOCOL_UNSUPPORTED"}

// fillRandom fills every settable field of a message struct with random content.
func fillRandom(r *rand.Rand, v reflect.Value, depth int) {
	switch v.Kind() {
	case reflect.Ptr:
		if v.IsNil() {
			if depth > 3 {
				return
			}
			v.Set(reflect.New(v.Type().Elem()))
		}
		fillRandom(r, v.Elem(), depth+1)
	case reflect.Struct:
		for i := 0; i < v.NumField(); i++ {
			f := v.Field(i)
			if !f.CanSet() || strings.HasPrefix(v.Type().Field(i).Name, "XXX_") {
				continue
			}
			fillRandom(r, f, depth+1)
		}
	case reflect.String:
		v.SetString(stringPool[r.Intn(len(stringPool))])
	case reflect.Slice:
		if v.Type().Elem().Kind() == reflect.Uint8 {
			b := make([]byte, r.Intn(70))
			r.Read(b)
			v.SetBytes(b)
			return
		}
		n := r.Intn(4)
		s := reflect.MakeSlice(v.Type(), n, n)
		for i := 0; i < n; i++ {
			fillRandom(r, s.Index(i), depth+1)
		}
		v.Set(s)
	case reflect.Uint32, reflect.Uint64, reflect.Uint, reflect.Uint8, reflect.Uint16:
		v.SetUint(uint64(r.Intn(100)))
	case reflect.Int32, reflect.Int64, reflect.Int:
		v.SetInt(int64(r.Intn(6)))
	case reflect.Bool:
		v.SetBool(r.Intn(2) == 0)
	}
}

func goFieldForProto(t reflect.Type, protoName string) string {
	for i := 0; i < t.NumField(); i++ {
		tag := t.Field(i).Tag.Get("protobuf")
		for _, part := range strings.Split(tag, ",") {
			if part == "name="+protoName {
				return t.Field(i).Name
			}
		}
	}
	return ""
}

// SignerClass is an impostor signer string.
type SignerClass struct {
	Name   string
	Value  string
	Either bool // denotes the authority in another spelling: outcome not fixed
}

func impostors(w *world.World) []SignerClass {
	auth := w.Authority
	return []SignerClass{
		{"user", w.K("carol").String(), false},
		{"other-user", w.K("alice").String(), false},
		{"orbiter-module", world.OrbiterAddr().String(), false},
		{"dust-module", world.DustAddr().String(), false},
		{"gov-module", ModAddr("gov"), false},
		{"empty", "", false},
		{"garbage", "not-an-address", false},
		{"authority-other-hrp", otherHRP(auth.Addr, "cosmos"), false},
		{"authority-trailing-space", auth.String() + " ", false},
		{"authority-leading-space", " " + auth.String(), false},
		{"authority-truncated", auth.String()[:len(auth.String())-1], false},
		{"authority-hex", fmt.Sprintf("%x", auth.Addr.Bytes()), false},
		{"authority-upper", strings.ToUpper(auth.String()), true},
	}
}

// validTemplates returns, in an order that makes each valid in the state left by its
// predecessors, one valid body per known message type.
func validTemplates(l *Lab, ctx sdk.Context, r *rand.Rand) ([]sdk.Msg, error) {
	a := l.W.Authority.String()
	msg, att, _, err := CCTPDeposit(l, ctx, r, true)
	if err != nil {
		return nil, err
	}
	var hundred []string
	for i := 0; i < 100; i++ {
		hundred = append(hundred, fmt.Sprint(3000+i))
	}
	return []sdk.Msg{
		// the largest batch the module accepts, in both directions
		&forwardertypes.MsgPauseCrossChains{Signer: a, ProtocolId: "PROTOCOL_HYPERLANE", CounterpartyIds: hundred},
		&forwardertypes.MsgUnpauseCrossChains{Signer: a, ProtocolId: "PROTOCOL_HYPERLANE", CounterpartyIds: hundred},
		&forwardertypes.MsgPauseProtocol{Signer: a, ProtocolId: "PROTOCOL_HYPERLANE"},
		&forwardertypes.MsgUnpauseProtocol{Signer: a, ProtocolId: "PROTOCOL_HYPERLANE"},
		&forwardertypes.MsgPauseCrossChains{Signer: a, ProtocolId: "PROTOCOL_CCTP", CounterpartyIds: []string{"0", "5"}},
		&forwardertypes.MsgUnpauseCrossChains{Signer: a, ProtocolId: "PROTOCOL_CCTP", CounterpartyIds: []string{"5", "0"}},
		&executortypes.MsgPauseAction{Signer: a, ActionId: "ACTION_FEE"},
		&executortypes.MsgUnpauseAction{Signer: a, ActionId: "ACTION_FEE"},
		&adaptertypes.MsgUpdateParams{Signer: a, Params: adaptertypes.Params{MaxPassthroughPayloadSize: 77}},
		&forwardertypes.MsgReplaceDepositForBurn{Signer: a, OriginalMessage: msg, OriginalAttestation: att,
			NewDestinationCaller: evmAddr32(r), NewMintRecipient: evmAddr32(r)},
	}, nil
}

func setSigner(m sdk.Msg, goField, signer string) {
	reflect.ValueOf(m).Elem().FieldByName(goField).SetString(signer)
}

func cloneMsg(m sdk.Msg) sdk.Msg { return gogoproto.Clone(m).(sdk.Msg) }

// CheckC10 enumerates the Msg RPC surface and fires every RPC with impostor signers.
func CheckC10(e *fw.Env, l *Lab) {
	if e.Shard == 1%e.Shards {
		noAuthorityKeeperC10(e, l)
	}
	w := l.W
	rpcs := DiscoverMsgRPCs()
	e.Res.Notes["rpcs_discovered"] = fmt.Sprint(len(rpcs))
	var names []string
	for _, r := range rpcs {
		names = append(names, r.Service+"/"+r.Method)
	}
	e.Res.Notes["rpc_list"] = strings.Join(names, ", ")
	if len(rpcs) == 0 {
		e.Res.Inconc("no Msg RPC discovered")
		return
	}
	imps := impostors(w)

	// state with something to unpause etc., and valid templates per type.
	base, _ := l.Base.CacheContext()
	tpls, err := validTemplates(l, base, e.R)
	if err != nil {
		e.Res.Inconc("templates: %v", err)
		return
	}
	tplByType := map[string][]sdk.Msg{}
	// run the templates as the authority on a scratch branch, collecting for each the state in
	// which it is valid.
	type ready struct {
		msg sdk.Msg
		ctx sdk.Context
	}
	var readies []ready
	walk, _ := base.CacheContext()
	for _, m := range tpls {
		at, _ := walk.CacheContext() // state in which m is valid
		readies = append(readies, ready{m, at})
		// first in a transaction that is discarded (gas simulation, a later message of the same
		// transaction fails): only committed state may decide whether the authority's message
		// succeeds afterwards, and its effect must be the same
		reh, _ := walk.CacheContext()
		hr0 := w.Handle(reh, m)
		digReh := w.StoreDigest(reh)
		hr := w.Handle(walk, m)
		e.Res.Eval()
		name := gogoproto.MessageName(m)
		if hr0.Err == nil && hr.Err != nil {
			e.Res.Violate(fw.Violation{Property: "C10", Kind: "authority-valid-message-refused", Tags: map[string]string{"msg": name, "after": "discarded-rehearsal"},
				Detail: fmt.Sprintf("%s signed by the authority succeeds on a context that is then discarded and fails on the committed state afterwards: %v", name, hr.Err)})
			tplByType[name] = append(tplByType[name], m)
			continue
		}
		if hr0.Err == nil && hr.Err == nil {
			if diff := world.DigestDiff(digReh, w.StoreDigest(walk)); len(diff) != 0 {
				e.Res.Violate(fw.Violation{Property: "C10", Kind: "authority-message-effect-depends-on-discarded-execution", Tags: map[string]string{"msg": name},
					Detail: fmt.Sprintf("%s: the state after the committed execution differs from the state after the same execution on a discarded context (stores %v)", name, diff)})
			}
		}
		if hr.Err != nil {
			e.Res.Violate(fw.Violation{Property: "C10", Kind: "authority-valid-message-refused", Tags: map[string]string{"msg": name},
				Detail: fmt.Sprintf("%s signed by the authority with valid content failed: %v", name, hr.Err)})
		} else {
			e.Res.Sig("authority|%s|ok", name)
		}
		tplByType[name] = append(tplByType[name], m)
	}
	for _, r := range rpcs {
		if len(tplByType[r.Input]) == 0 {
			e.Res.Count("rpc-without-valid-template")
			e.Res.Notes["no_template:"+r.Input] = "only random bodies"
		}
	}

	tryImpostor := func(r RPC, m sdk.Msg, ctx sdk.Context, imp SignerClass, bodyKind string) {
		goField := goFieldForProto(r.GoType.Elem(), r.Signer)
		if goField == "" {
			e.Res.Violate(fw.Violation{Property: "C10", Kind: "rpc-without-signer-field", Tags: map[string]string{"msg": r.Input},
				Detail: "request type has no cosmos.msg.v1.signer field"})
			return
		}
		setSigner(m, goField, imp.Value)
		branch, _ := ctx.CacheContext()
		before := w.StoreDigest(branch)
		e.Log(map[string]any{"rpc": r.Method, "signer": imp, "body": fmt.Sprint(m)})
		hr := w.Handle(branch, m)
		e.Res.Eval()
		after := w.StoreDigest(branch)
		wtn := map[string]any{"rpc": r.Service + "/" + r.Method, "signer_class": imp.Name, "signer": imp.Value, "body": fmt.Sprint(m), "body_kind": bodyKind}
		tags := map[string]string{"rpc": r.Method, "signer": imp.Name}
		if imp.Either {
			e.Res.Sig("%s|%s|%s|either|%v", r.Method, imp.Name, bodyKind, hr.Err == nil)
			return
		}
		if hr.Panic != nil {
			e.Res.Violate(fw.Violation{Property: "C10", Kind: "unauthorized-message-panicked", Tags: tags, Detail: fmt.Sprint(hr.Panic), Witness: wtn})
			return
		}
		if hr.Err == nil {
			e.Res.Violate(fw.Violation{Property: "C10", Kind: "unauthorized-message-succeeded", Tags: tags,
				Detail: fmt.Sprintf("%s succeeded with signer %q (%s)", r.Method, imp.Value, imp.Name), Witness: wtn})
			return
		}
		if diff := world.DigestDiff(before, after); len(diff) != 0 {
			e.Res.Violate(fw.Violation{Property: "C10", Kind: "unauthorized-message-changed-state", Tags: tags,
				Detail: fmt.Sprintf("stores changed: %v", diff), Witness: wtn})
			return
		}
		if len(hr.Events) != 0 {
			e.Res.Violate(fw.Violation{Property: "C10", Kind: "unauthorized-message-emitted-events", Tags: tags, Detail: fmt.Sprint(hr.Events), Witness: wtn})
			return
		}
		e.Res.Sig("%s|%s|%s|refused", r.Method, imp.Name, bodyKind)
	}

	// 1. valid bodies (in the state where they are valid) with every impostor.
	for _, rd := range readies {
		name := gogoproto.MessageName(rd.msg)
		for _, r := range rpcs {
			if r.Input != name {
				continue
			}
			for _, imp := range imps {
				tryImpostor(r, cloneMsg(rd.msg), rd.ctx, imp, "valid")
			}
		}
	}
	// 2. random bodies for every discovered RPC (known or not).
	n := e.N(19200, 400000) / (len(rpcs) * len(imps))
	if n < 1 {
		n = 1
	}
	for _, r := range rpcs {
		if r.GoType == nil {
			e.Res.Violate(fw.Violation{Property: "C10", Kind: "rpc-type-not-registered", Tags: map[string]string{"msg": r.Input}, Detail: "no Go type for " + r.Input})
			continue
		}
		for _, imp := range imps {
			for i := 0; i < n; i++ {
				v := reflect.New(r.GoType.Elem())
				fillRandom(e.R, v, 0)
				m, ok := v.Interface().(sdk.Msg)
				if !ok {
					continue
				}
				tryImpostor(r, m, walk, imp, "random")
			}
		}
	}
	e.Res.Sample(map[string]any{"rpcs": names, "impostor_classes": len(imps)})
	checkC10T(e, rpcs)
}

// checkC10T sends impostor-signed transactions through FinalizeBlock on a fresh world.
// noAuthorityKeeperC10: a keeper cannot be built with an authority that denotes no account; if
// it can, no signer that denotes no account may pass its authority check.
func noAuthorityKeeperC10(e *fw.Env, l *Lab) {
	app := l.W.App
	for _, auth := range []string{"", " ", "noble", "noble1", "not-an-address", "cosmos1fl48vsnmsdzcv85q5d2q4z5ajdha8yu34mf0eh", strings.ToUpper(app.OrbiterKeeper.Authority()[:20])} {
		var k *keeper.Keeper
		func() {
			defer func() { _ = recover() }()
			k = keeper.NewKeeper(l.W.Cdc, authcodec.NewBech32Codec("noble"), log.NewNopLogger(), runtime.EventService{},
				runtime.NewKVStoreService(app.GetKey("orbiter")), auth, app.BankKeeper)
		}()
		e.Res.Eval()
		if k == nil {
			e.Res.Count("keeper-with-invalid-authority-refused")
			e.Res.Sig("construct|refused|%q", auth)
			continue
		}
		for _, signer := range []string{auth, "", strings.TrimSpace(auth)} {
			if err := k.RequireAuthority(signer); err == nil {
				e.Res.Violate(fw.Violation{Property: "C10", Kind: "signer-denoting-no-account-accepted", Tags: map[string]string{"at": "keeper-construction"},
					Detail:  fmt.Sprintf("a keeper can be built with authority %q (no account) and then accepts signer %q", auth, signer),
					Witness: map[string]any{"authority": auth, "signer": signer}})
			}
		}
		e.Res.Sig("construct|built|%q", auth)
	}
}

func checkC10T(e *fw.Env, rpcs []RPC) {
	if e.Shard != 0 {
		return
	}
	l, err := NewLab(world.Config{})
	if err != nil {
		e.Res.Inconc("world: %v", err)
		return
	}
	w := l.W
	carol := w.K("carol")
	for _, r := range rpcs {
		for i := 0; i < 6; i++ {
			v := reflect.New(r.GoType.Elem())
			fillRandom(e.R, v, 0)
			m := v.Interface().(sdk.Msg)
			goField := goFieldForProto(r.GoType.Elem(), r.Signer)
			setSigner(m, goField, carol.String())
			before := w.StoreDigest(w.Ctx())["orbiter"]
			res, err := w.DeliverTx(carol, m)
			if err != nil {
				e.Res.Inconc("deliver: %v", err)
				return
			}
			e.Res.Eval()
			after := w.StoreDigest(w.Ctx())["orbiter"]
			if res.Code == 0 || before != after {
				e.Res.Violate(fw.Violation{Property: "C10", Kind: "unauthorized-message-succeeded", Tags: map[string]string{"rpc": r.Method, "signer": "user", "mode": "T"},
					Detail: fmt.Sprintf("tx signed by a user: code=%d, orbiter store changed=%v", res.Code, before != after), Witness: fmt.Sprint(m)})
				continue
			}
			e.Res.Sig("T|%s|user|refused", r.Method)
		}
	}
	// authority-signed valid templates succeed in real transactions.
	for _, m := range []sdk.Msg{
		&forwardertypes.MsgPauseProtocol{Signer: w.Authority.String(), ProtocolId: "PROTOCOL_INTERNAL"},
		&executortypes.MsgPauseAction{Signer: w.Authority.String(), ActionId: "ACTION_FEE"},
		&adaptertypes.MsgUpdateParams{Signer: w.Authority.String(), Params: adaptertypes.Params{MaxPassthroughPayloadSize: 3}},
	} {
		res, err := w.DeliverTx(w.Authority, m)
		if err != nil {
			e.Res.Inconc("deliver: %v", err)
			return
		}
		e.Res.Eval()
		if res.Code != 0 {
			e.Res.Violate(fw.Violation{Property: "C10", Kind: "authority-valid-message-refused", Tags: map[string]string{"msg": gogoproto.MessageName(m), "mode": "T"}, Detail: res.Log})
		} else {
			e.Res.Sig("T|authority|%s|ok", gogoproto.MessageName(m))
		}
	}
}
