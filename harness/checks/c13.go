package checks

import (
	"fmt"
	"sort"
	"strings"

	sdk "github.com/cosmos/cosmos-sdk/types"
	"github.com/cosmos/cosmos-sdk/types/query"

	dispatchercomp "github.com/noble-assets/orbiter/v2/keeper/component/dispatcher"
	dispatchertypes "github.com/noble-assets/orbiter/v2/types/component/dispatcher"

	orbitertypes "github.com/noble-assets/orbiter/v2/types"

	"orbverif/altstack"
	"orbverif/fw"
	"orbverif/run"
	"orbverif/spec"
	"orbverif/world"
)

func amtEntryKey(a *dispatchertypes.DispatchedAmountEntry) string {
	return fmt.Sprintf("%d|%s|%d|%s|%s=%s/%s", int32(a.SourceId.ProtocolId), a.SourceId.CounterpartyId,
		int32(a.DestinationId.ProtocolId), a.DestinationId.CounterpartyId, a.Denom,
		a.AmountDispatched.Incoming.String(), a.AmountDispatched.Outgoing.String())
}

func cntEntryKey(c *dispatchertypes.DispatchCountEntry) string {
	return fmt.Sprintf("%d|%s|%d|%s=%d", int32(c.SourceId.ProtocolId), c.SourceId.CounterpartyId,
		int32(c.DestinationId.ProtocolId), c.DestinationId.CounterpartyId, c.Count)
}

// truth returns the entries (rendered) of the exported statistics matching a filter.
func truthAmounts(st run.Stats, bySource bool, proto int32) []string {
	var out []string
	for k, v := range st.Amounts {
		f := strings.Split(k, "|")
		field := f[0]
		if !bySource {
			field = f[2]
		}
		if field == fmt.Sprint(proto) {
			out = append(out, fmt.Sprintf("%s=%s/%s", k, v[0], v[1]))
		}
	}
	sort.Strings(out)
	return out
}

func truthCounts(st run.Stats, bySource bool, proto int32) []string {
	var out []string
	for k, v := range st.Counts {
		f := strings.Split(k, "|")
		field := f[0]
		if !bySource {
			field = f[2]
		}
		if field == fmt.Sprint(proto) {
			out = append(out, fmt.Sprintf("%s=%d", k, v))
		}
	}
	sort.Strings(out)
	return out
}

type pager func(p *query.PageRequest) ([]string, *query.PageResponse, error)

// walkPages follows next-keys with the given limit and returns everything visited.
func walkPages(pg pager, limit uint64, reverse bool) ([]string, int, error) {
	var all []string
	var key []byte
	pages := 0
	for {
		items, pr, err := pg(&query.PageRequest{Key: key, Limit: limit, Reverse: reverse})
		if err != nil {
			return nil, pages, err
		}
		pages++
		if uint64(len(items)) > limit {
			return nil, pages, fmt.Errorf("page of %d items exceeds limit %d", len(items), limit)
		}
		all = append(all, items...)
		if pr == nil || len(pr.NextKey) == 0 {
			break
		}
		if len(items) == 0 {
			return nil, pages, fmt.Errorf("empty page with a next key")
		}
		key = pr.NextKey
		if pages > 10000 {
			return nil, pages, fmt.Errorf("pagination does not terminate")
		}
	}
	return all, pages, nil
}

func sameMultiset(a, b []string) bool {
	x := append([]string(nil), a...)
	y := append([]string(nil), b...)
	sort.Strings(x)
	sort.Strings(y)
	return strings.Join(x, "\n") == strings.Join(y, "\n")
}

func isReversed(fwd, rev []string) bool {
	if len(fwd) != len(rev) {
		return false
	}
	for i := range fwd {
		if fwd[i] != rev[len(rev)-1-i] {
			return false
		}
	}
	return true
}

// checkListing runs every pagination mode of one listing against its truth.
func checkListing(e *fw.Env, name string, pg pager, truth []string, hist any) {
	n := len(truth)
	viol := func(kind, detail string) {
		e.Res.Violate(fw.Violation{Property: "C13", Kind: kind, Tags: map[string]string{"listing": name},
			Detail: name + ": " + detail, Witness: map[string]any{"context": hist, "truth": truth}})
	}
	limits := []uint64{1, 2, 3, uint64(n), uint64(n + 1), 1000}
	if n > 4 {
		limits = append(limits, uint64(n-1), uint64(n/2), uint64(1+e.R.Intn(n)))
	}
	var fwdAll []string
	haveFwd := false
	for _, lim := range limits {
		if lim == 0 {
			continue
		}
		for _, rev := range []bool{false, true} {
			rev := rev
			got, pages, err := walkPages(pg, lim, rev)
			e.Res.Eval()
			if rev && (err != nil || !sameMultiset(got, truth)) && hasTerminalPrefixSiblings(truth) {
				// The SDK's reverse pagination bounds the iteration by PrefixEndBytes(next key), which
				// re-includes every sibling whose last (unterminated string) key component has
				// the next key's component as a proper prefix (e.g. counterparties "1" and "10").
				e.Res.Violate(fw.Violation{Property: "C13", Kind: "reverse-pagination-revisits-prefix-siblings",
					Tags:    map[string]string{"direction": "reverse", "cause": "last-key-component-is-prefix-of-sibling"},
					Detail:  fmt.Sprintf("%s: limit %d reverse: %v; visited %d of %d", name, lim, err, len(got), n),
					Witness: map[string]any{"context": hist, "truth": truth, "listing": name, "limit": lim}})
				e.Res.Sig("%s|n=%d|limit=%s|rev=%v|prefix-siblings", name, bucket(n), relLimit(lim, n), rev)
				continue
			}
			if err != nil {
				viol("pagination-error", fmt.Sprintf("limit %d reverse %v: %v", lim, rev, err))
				return
			}
			if !sameMultiset(got, truth) {
				viol("pagination-skips-or-repeats", fmt.Sprintf("limit %d reverse %v (%d pages): visited %d entries %v, truth has %d", lim, rev, pages, len(got), got, n))
				return
			}
			if !rev && lim == 1000 {
				fwdAll, haveFwd = got, true
			}
			if rev && lim == 1000 && fwdAll != nil && !isReversed(fwdAll, got) {
				viol("reverse-order-not-mirror", "reverse listing is not the mirror image of the forward listing")
				return
			}
			e.Res.Sig("%s|n=%d|limit=%s|rev=%v", name, bucket(n), relLimit(lim, n), rev)
		}
	}
	// count_total and offsets
	items, pr, err := pg(&query.PageRequest{Limit: 2, CountTotal: true})
	e.Res.Eval()
	if err != nil {
		viol("pagination-error", "count_total: "+err.Error())
		return
	}
	if pr == nil || pr.Total != uint64(n) {
		viol("wrong-total", fmt.Sprintf("count_total reports %v, truth %d (page %v)", pr, n, items))
		return
	}
	// offset windows: with the forward listing as the order, every (offset, limit) window and its
	// total must be the corresponding slice of the truth - also beyond the end and for filters
	// that match nothing
	if haveFwd {
		for _, off := range []int{0, 1, 2, n - 1, n, n + 1, n + 3} {
			if off < 0 {
				continue
			}
			for _, lim := range []uint64{1, 3} {
				items, pr, err := pg(&query.PageRequest{Offset: uint64(off), Limit: lim, CountTotal: true})
				e.Res.Eval()
				if err != nil {
					viol("pagination-error", fmt.Sprintf("offset %d limit %d count_total: %v", off, lim, err))
					return
				}
				lo, hi := off, off+int(lim)
				if lo > n {
					lo = n
				}
				if hi > n {
					hi = n
				}
				want := fwdAll[lo:hi]
				if strings.Join(items, "\n") != strings.Join(want, "\n") {
					viol("offset-window-differs", fmt.Sprintf("offset %d limit %d: got %v want %v", off, lim, items, want))
					return
				}
				// the SDK reports no total when the offset lies beyond the last entry (it returns
				// before counting): there 0 is accepted as well as n
				if pr == nil || (pr.Total != uint64(n) && !(off >= n && pr.Total == 0)) {
					viol("wrong-total", fmt.Sprintf("offset %d limit %d: count_total reports %v, truth %d", off, lim, pr, n))
					return
				}
			}
		}
		e.Res.Sig("%s|n=%d|offset-windows", name, bucket(n))
	}
	// a client that keeps count_total set while following next keys: every page reports either
	// no total (the SDK does not count on key pages) or the true one
	for _, lim := range []uint64{1, 2, 3} {
		var key []byte
		for page := 0; page < n+2; page++ {
			_, pr, err := pg(&query.PageRequest{Key: key, Limit: lim, CountTotal: true})
			e.Res.Eval()
			if err != nil {
				viol("pagination-error", fmt.Sprintf("key page %d limit %d count_total: %v", page, lim, err))
				return
			}
			if pr != nil && pr.Total != 0 && pr.Total != uint64(n) {
				viol("wrong-total", fmt.Sprintf("page %d (by key, limit %d) with count_total reports %d, truth %d", page, lim, pr.Total, n))
				return
			}
			if pr == nil || len(pr.NextKey) == 0 {
				break
			}
			key = pr.NextKey
		}
	}
	var viaOffset []string
	for off := 0; off <= n; off += 2 {
		items, _, err := pg(&query.PageRequest{Offset: uint64(off), Limit: 2})
		e.Res.Eval()
		if err != nil {
			viol("pagination-error", fmt.Sprintf("offset %d: %v", off, err))
			return
		}
		viaOffset = append(viaOffset, items...)
	}
	if !sameMultiset(viaOffset, truth) {
		viol("offset-pagination-skips-or-repeats", fmt.Sprintf("offset walk visited %v", viaOffset))
		return
	}
	// no pagination request at all
	items, _, err = pg(nil)
	e.Res.Eval()
	if err != nil {
		viol("pagination-error", "nil page request: "+err.Error())
		return
	}
	if n <= 100 && !sameMultiset(items, truth) {
		viol("unpaginated-listing-differs", fmt.Sprintf("got %v", items))
	}
}

// hasTerminalPrefixSiblings reports whether two entries agree on all key components but the
// last one, and the last component of one is a proper prefix of the other's.
func hasTerminalPrefixSiblings(truth []string) bool {
	groups := map[string][]string{}
	for _, t := range truth {
		k := t
		if i := strings.Index(k, "="); i >= 0 {
			k = k[:i]
		}
		j := strings.LastIndex(k, "|")
		if j < 0 {
			continue
		}
		groups[k[:j]] = append(groups[k[:j]], k[j+1:])
	}
	for _, g := range groups {
		for _, a := range g {
			for _, b := range g {
				if a != b && strings.HasPrefix(b, a) {
					return true
				}
			}
		}
	}
	return false
}

func relLimit(lim uint64, n int) string {
	switch {
	case lim == 1:
		return "1"
	case lim == uint64(n):
		return "n"
	case lim == uint64(n+1):
		return "n+1"
	case lim > uint64(n):
		return ">n"
	}
	return "<n"
}

// QueryOracle checks every dispatcher query against the exported statistics in ctx.
func QueryOracle(e *fw.Env, w *world.World, ctx sdk.Context, hist any) {
	defer func() {
		if r := recover(); r != nil {
			e.Res.Violate(fw.Violation{Property: "C13", Kind: "query-panicked", Detail: fmt.Sprintf("a statistics query panicked: %v", r), Witness: hist})
		}
	}()
	q := dispatchercomp.NewQueryServer(w.App.OrbiterKeeper.Dispatcher())
	st := run.ReadStats(w, ctx)
	for p := int32(1); p <= 4; p++ {
		p := p
		name := ProtoName[p]
		checkListing(e, "amounts-by-source:"+name, func(pr *query.PageRequest) ([]string, *query.PageResponse, error) {
			resp, err := q.DispatchedAmountsBySourceProtocolID(ctx, &dispatchertypes.QueryDispatchedAmountsByProtocolIDRequest{ProtocolId: name, Pagination: pr})
			if err != nil {
				return nil, nil, err
			}
			var out []string
			for _, a := range resp.Amounts {
				out = append(out, amtEntryKey(a))
			}
			return out, resp.Pagination, nil
		}, truthAmounts(st, true, p), hist)
		checkListing(e, "amounts-by-destination:"+name, func(pr *query.PageRequest) ([]string, *query.PageResponse, error) {
			resp, err := q.DispatchedAmountsByDestinationProtocolID(ctx, &dispatchertypes.QueryDispatchedAmountsByProtocolIDRequest{ProtocolId: name, Pagination: pr})
			if err != nil {
				return nil, nil, err
			}
			var out []string
			for _, a := range resp.Amounts {
				out = append(out, amtEntryKey(a))
			}
			return out, resp.Pagination, nil
		}, truthAmounts(st, false, p), hist)
		checkListing(e, "counts-by-source:"+name, func(pr *query.PageRequest) ([]string, *query.PageResponse, error) {
			resp, err := q.DispatchedCountsBySourceProtocolID(ctx, &dispatchertypes.QueryDispatchedCountsByProtocolIDRequest{ProtocolId: name, Pagination: pr})
			if err != nil {
				return nil, nil, err
			}
			var out []string
			for _, c := range resp.Counts {
				out = append(out, cntEntryKey(c))
			}
			return out, resp.Pagination, nil
		}, truthCounts(st, true, p), hist)
		checkListing(e, "counts-by-destination:"+name, func(pr *query.PageRequest) ([]string, *query.PageResponse, error) {
			resp, err := q.DispatchedCountsByDestinationProtocolID(ctx, &dispatchertypes.QueryDispatchedCountsByProtocolIDRequest{ProtocolId: name, Pagination: pr})
			if err != nil {
				return nil, nil, err
			}
			var out []string
			for _, c := range resp.Counts {
				out = append(out, cntEntryKey(c))
			}
			return out, resp.Pagination, nil
		}, truthCounts(st, false, p), hist)
	}
	// direct lookups: every present key and absent neighbours
	viol := func(kind, detail string) {
		e.Res.Violate(fw.Violation{Property: "C13", Kind: kind, Detail: detail, Witness: hist})
	}
	lookupAmt := func(sp, sc, dp, dc, denom string) (string, error) {
		resp, err := q.DispatchedAmounts(ctx, &dispatchertypes.QueryDispatchedAmountsRequest{
			SourceProtocolId: sp, SourceCounterpartyId: sc, DestinationProtocolId: dp, DestinationCounterpartyId: dc, Denom: denom})
		if err != nil {
			return "", err
		}
		if len(resp.Amounts) != 1 {
			return "", fmt.Errorf("%d entries", len(resp.Amounts))
		}
		return amtEntryKey(resp.Amounts[0]), nil
	}
	pn := func(s string) string {
		var n int32
		fmt.Sscan(s, &n)
		return ProtoName[n]
	}
	for k, v := range st.Amounts {
		f := strings.Split(k, "|")
		want := fmt.Sprintf("%s=%s/%s", k, v[0], v[1])
		got, err := lookupAmt(pn(f[0]), f[1], pn(f[2]), f[3], f[4])
		e.Res.Eval()
		if err != nil || got != want {
			viol("direct-lookup-differs", fmt.Sprintf("amounts %s: got %q err %v", want, got, err))
			return
		}
		// absent neighbours
		for _, nb := range [][5]string{
			{f[0], f[1], f[2], f[3], f[4] + "x"},
			{f[0], "channel-99", f[2], f[3], f[4]},
			{f[0], f[1], f[2], f[3] + "9", f[4]},
		} {
			nk := strings.Join(nb[:], "|")
			if _, present := st.Amounts[nk]; present {
				continue
			}
			if nb[2] != "4" && (nb[3] != f[3]) && !isDigits(nb[3]) {
				continue
			}
			_, err := lookupAmt(pn(nb[0]), nb[1], pn(nb[2]), nb[3], nb[4])
			e.Res.Eval()
			if err == nil {
				viol("direct-lookup-finds-absent-entry", "amounts lookup for absent key "+nk+" returned an entry")
				return
			}
		}
		e.Res.Sig("lookup-amounts|%s|%s", f[2], f[4])
	}
	for k, v := range st.Counts {
		f := strings.Split(k, "|")
		resp, err := q.DispatchedCounts(ctx, &dispatchertypes.QueryDispatchedCountsRequest{
			SourceProtocolId: pn(f[0]), SourceCounterpartyId: f[1], DestinationProtocolId: pn(f[2]), DestinationCounterpartyId: f[3]})
		e.Res.Eval()
		if err != nil || len(resp.Counts) != 1 || cntEntryKey(resp.Counts[0]) != fmt.Sprintf("%s=%d", k, v) {
			viol("direct-lookup-differs", fmt.Sprintf("counts %s=%d: got %v err %v", k, v, resp, err))
			return
		}
		// swapped source channel: absent
		if _, present := st.Counts["1|channel-99|"+f[2]+"|"+f[3]]; !present {
			if _, err := q.DispatchedCounts(ctx, &dispatchertypes.QueryDispatchedCountsRequest{
				SourceProtocolId: pn(f[0]), SourceCounterpartyId: "channel-99", DestinationProtocolId: pn(f[2]), DestinationCounterpartyId: f[3]}); err == nil {
				viol("direct-lookup-finds-absent-entry", "counts lookup for an absent source returned an entry")
				return
			}
		}
		e.Res.Sig("lookup-counts|%s", f[2])
	}
}

func isDigits(s string) bool {
	if s == "" {
		return false
	}
	for _, c := range s {
		if c < '0' || c > '9' {
			return false
		}
	}
	return true
}

// CheckC13 grows ledgers by histories and runs the query oracle at checkpoints.
func CheckC13(e *fw.Env, l *Lab) {
	swapCtl := newSwapController(l.W)
	swapStack, err := altstack.New(l.W, altstack.Options{ExtraActions: []orbitertypes.ActionController{swapCtl}})
	if err != nil {
		swapStack = nil
		e.Res.Inconc("alternative stack: %v", err)
	}
	hists := e.N(16, 400)
	for h := 0; h < hists; h++ {
		ctx, _ := l.Base.CacheContext()
		sh := NewShadow()
		steps := 120 + e.R.Intn(200)
		every := 40 + e.R.Intn(40)
		// some denomination-changing transfers first (alternative keeper with the swap test
		// controller over the same store): they leave single-sided entries (incoming only /
		// outgoing only) in the ledger the application's own query server then has to report
		if swapStack != nil && e.R.Intn(2) == 0 {
			for k := 0; k < 3+e.R.Intn(8); k++ {
				SwapLedgerStep(e, l, swapStack, swapCtl, ctx)
			}
		}
		// totals at the top of the representable range: 2^255 ubig in one transfer (incoming and
		// outgoing each hold 2^255 afterwards)
		if e.R.Intn(2) == 0 {
			t := run.Transfer{Pair: l.W.Channels[0], Denom: world.BIG, Amount: pow2(255).String(), Sender: l.W.K("bob").String(), Receiver: OrbiterReceiver(),
				Spec: &spec.Spec{Route: spec.Route{Kind: "internal", To: l.W.K("rcpt1").String()}}}
			if o := run.Do(l.W, ctx, t, run.Mode{Kind: "H"}); o.Success() {
				e.Res.Count("histories-with-2^255-totals")
			}
		}
		History(e, l, ctx, sh, steps, every, func(step int, trail []HistOp) bool {
			before := len(e.Res.Violations)
			QueryOracle(e, l.W, ctx, map[string]any{"history": h, "step": step, "last_ops": trail})
			e.Res.Count("checkpoints")
			e.Res.CountN("ledger-entries-at-checkpoints", len(sh.In))
			return len(e.Res.Violations) == before
		})
		if h == 0 {
			e.Res.Sample(map[string]any{"history_steps": steps, "entries": len(sh.In), "ledger": trunc(sh.AsStats().String(), 500)})
		}
	}
	// empty ledger
	if e.Shard == 0 {
		QueryOracle(e, l.W, l.Base, "empty ledger")
	}
	// a ledger with more entries per filter than any default page size: a chain imported with
	// 130 entries, queried at once and after some more transfers
	if e.Shard == 1%e.Shards {
		gen, sh := seededStatsGenesis(130)
		l2, err := NewLab(world.Config{OrbiterGenesis: []byte(gen)})
		if err != nil {
			e.Res.Inconc("seeded-ledger world: %v", err)
			return
		}
		QueryOracle(e, l2.W, l2.Base, "chain imported with 130 statistics entries")
		ctx, _ := l2.Base.CacheContext()
		History(e, l2, ctx, sh, 40, 20, func(step int, trail []HistOp) bool {
			before := len(e.Res.Violations)
			QueryOracle(e, l2.W, ctx, map[string]any{"genesis": "130 statistics entries", "step": step, "last_ops": trail})
			return len(e.Res.Violations) == before
		})
		e.Res.Sig("seeded-ledger|entries=%d", len(sh.In))
	}
}
