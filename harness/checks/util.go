package checks

import (
	"sort"
	"strconv"
	"strings"
)

func itoa(i int) string { return strconv.Itoa(i) }

func join(s []string) string { return strings.Join(s, "; ") }

func sortStrings(s []string) { sort.Strings(s) }
