package checks

import (
	"strconv"
	"strings"
)

func itoa(i int) string { return strconv.Itoa(i) }

func join(s []string) string { return strings.Join(s, "; ") }
