package checks

import (
	"fmt"
	"math/big"
	"math/rand"
	"strings"

	sdkmath "cosmossdk.io/math"
	warptypes "github.com/bcp-innovations/hyperlane-cosmos/x/warp/types"
	sdk "github.com/cosmos/cosmos-sdk/types"
	gogoproto "github.com/cosmos/gogoproto/proto"

	"orbverif/fw"
	"orbverif/run"
	"orbverif/spec"
	"orbverif/world"
)

// ProtoName maps numeric protocol ids to their symbolic names.
var ProtoName = map[int32]string{1: "PROTOCOL_IBC", 2: "PROTOCOL_CCTP", 3: "PROTOCOL_HYPERLANE", 4: "PROTOCOL_INTERNAL"}

// hostileCase builds one C01/C02-style case on a fresh branch: optional prior deposits, pauses
// and parameter, then a packet with generated receiver, route, fees and amount.
type hostileSetup struct {
	Deposits  map[string]string `json:"deposits,omitempty"`
	Paused    []string          `json:"paused,omitempty"`
	MaxPT     *uint32           `json:"max_passthrough,omitempty"`
	RouteCls  string            `json:"route_class"`
	RecvCls   string            `json:"receiver_class"`
	FeeCls    string            `json:"fee_class"`
	ValidDest bool              `json:"valid_dest"`
}

func pickDenom(r *rand.Rand) string {
	switch r.Intn(10) {
	case 0, 1:
		return world.USDN
	case 2:
		return world.BIG
	}
	return world.USDC
}

// genHostile draws a case. validBias is the probability (in %) of an all-valid case.
func genHostile(r *rand.Rand, l *Lab, validBias int) (run.Transfer, hostileSetup) {
	w := l.W
	var hs hostileSetup
	denom := pickDenom(r)
	var rt spec.Route
	max := e14
	allValid := r.Intn(100) < validBias
	if allValid || r.Intn(100) < 55 {
		d := l.PickDest(r, denom)
		rt = d.Make(r)
		hs.RouteCls = d.Name
		hs.ValidDest = true
		max = d.Max
	} else {
		rt, hs.RouteCls = GenHostileRoute(r, l, denom)
		if denom == world.BIG {
			max = MaxU256
		} else if rt.Kind == "cctp" {
			max = new(big.Int).Mul(e12, big.NewInt(2))
		}
	}
	a := GenAmount(r, max)
	s := &spec.Spec{Route: rt}
	switch {
	case allValid || r.Intn(100) < 45:
		if fees, ok := GenValidFees(r, w, a); ok && len(fees) > 0 {
			s.HasFee, s.Fees = true, fees
			hs.FeeCls = fmt.Sprintf("valid%d", len(fees))
		} else {
			hs.FeeCls = "none"
		}
	case r.Intn(100) < 60:
		if r.Intn(5) == 0 {
			var cls string
			s.Fees, cls = genBoundaryFees(r, w, a)
			s.HasFee = true
			hs.FeeCls = "boundary:" + cls
		} else {
			s.HasFee, s.Fees = true, GenAnyFees(r, w, a)
			hs.FeeCls = fmt.Sprintf("any%d", len(s.Fees))
		}
	default:
		hs.FeeCls = "none"
	}
	recv, rc := OrbiterReceiver(), "orbiter"
	if !allValid {
		recv, rc = GenReceiver(r, w)
	}
	hs.RecvCls = rc
	t := l.NewTransfer(r, denom, a, s)
	t.Receiver = recv
	return t, hs
}

// applySetup performs the prior history of a case on ctx.
func applySetup(r *rand.Rand, l *Lab, ctx sdkCtx, t run.Transfer, hs *hostileSetup, allowPause bool) {
	w := l.W
	if r.Intn(100) < 40 {
		hs.Deposits = map[string]string{}
		n := 1 + r.Intn(3)
		for i := 0; i < n; i++ {
			d := []string{t.Denom, world.USDC, world.USDN, world.EURE}[r.Intn(4)]
			if d == world.BIG {
				continue // alice's whole ubig supply is in escrow
			}
			amt := GenAmount(r, big.NewInt(1_000_000_000))
			if r.Intn(4) == 0 {
				if v, ok := new(big.Int).SetString(t.Amount, 10); ok && v.Cmp(e14) < 0 {
					amt = v
				}
			}
			if err := Deposit(w, ctx, w.K("carol"), d, amt); err == nil {
				prev := bigOr0(hs.Deposits[d])
				hs.Deposits[d] = new(big.Int).Add(prev, amt).String()
			}
		}
	}
	if allowPause && r.Intn(100) < 15 {
		switch r.Intn(3) {
		case 0:
			p := ProtoName[int32(2+r.Intn(3))]
			if PauseProtocol(w, ctx, p) == nil {
				hs.Paused = append(hs.Paused, p)
			}
		case 1:
			if t.Spec != nil && t.Spec.Route.Kind != "" {
				p := ProtoName[t.Spec.Route.ProtocolNum()]
				cp := t.Spec.Route.Counterparty()
				if PauseCrossChains(w, ctx, p, []string{cp}) == nil {
					hs.Paused = append(hs.Paused, p+":"+cp)
				}
			}
		case 2:
			if PauseAction(w, ctx, "ACTION_FEE") == nil {
				hs.Paused = append(hs.Paused, "ACTION_FEE")
			}
		}
	}
	if r.Intn(100) < 10 {
		v := uint32(r.Intn(64))
		if UpdateParams(w, ctx, v) == nil {
			hs.MaxPT = &v
		}
	}
}

func bigOr0(s string) *big.Int {
	if s == "" {
		return new(big.Int)
	}
	v, ok := new(big.Int).SetString(s, 10)
	if !ok {
		return new(big.Int)
	}
	return v
}

func outcomeClass(o *run.Obs) string {
	switch {
	case o.Res.Panic != nil:
		return "panic"
	case o.Res.Err != nil:
		return "handler-error"
	case o.Res.Ack == nil:
		return "no-ack"
	case o.Res.AckOK:
		return "success"
	}
	return "error-ack"
}

// aftermath runs, on the state a hostile case left behind, a deposit of the same denomination
// followed by an ordinary transfer to a calibrated destination: a packet must not be able to
// leave the module in a state that breaks later transfers.
func aftermath(e *fw.Env, l *Lab, ctx sdkCtx, prev run.Transfer, setup any) {
	denom := prev.Denom
	if denom == world.BIG || denom == "" {
		denom = world.USDC
	}
	if err := Deposit(l.W, ctx, l.W.K("carol"), denom, big.NewInt(int64(1+e.R.Intn(1000)))); err != nil {
		return
	}
	// undo pauses of the setup so that the probe is expected to be executed
	d := l.PickDest(e.R, denom)
	t := l.NewTransfer(e.R, denom, big.NewInt(int64(1000+e.R.Intn(1_000_000))), &spec.Spec{Route: d.Make(e.R)})
	o := run.Do(l.W, ctx, t, run.Mode{Kind: "H"})
	e.Res.Eval()
	e.Res.Count("aftermath:" + outcomeClass(o))
	before := len(e.Res.Violations)
	Universal(e.Res, o)
	attachSetup(e.Res, before, map[string]any{"after_packet": prev, "setup": setup})
	if o.Res.Panic != nil {
		e.Res.Sig("aftermath|panic")
	} else {
		e.Res.Sig("aftermath|%s|%s", d.Name, outcomeClass(o))
	}
}

var c01MemoCache []string

// c01Memos are memos that carry no (valid) orbiter payload: other applications' memos, empty and
// non-JSON documents, whole-document mutations and a sample of single-point mutations.
func c01Memos(l *Lab) []string {
	if c01MemoCache != nil {
		return c01MemoCache
	}
	out := hostileMemos(l, nil)
	for _, tpl := range l.Templates() {
		for i, m := range MutateMemo(tpl) {
			if len(m.Memo) < 4000 && (m.Site == "$" || i%23 == 0) {
				out = append(out, m.Memo)
			}
		}
	}
	c01MemoCache = out
	return out
}

// CheckC01 drives hostile packets from many states and watches the orbiter account.
func CheckC01(e *fw.Env, l *Lab) {
	n := e.N(6000, 300000)
	for i := 0; i < n; i++ {
		t, hs := genHostile(e.R, l, 25)
		if e.R.Intn(100) < 10 {
			t.Spec.Passthrough = make([]byte, e.R.Intn(80))
		}
		if e.R.Intn(100) < 12 {
			// "every memo": documents that are not payloads at all, or broken ones, addressed to
			// the orbiter account
			memos := c01Memos(l)
			t.Spec = nil
			t.Memo = memos[e.R.Intn(len(memos))]
			t.Receiver = []string{OrbiterReceiver(), strings.ToUpper(OrbiterReceiver())}[e.R.Intn(2)]
			hs.RecvCls, hs.RouteCls, hs.FeeCls = "orbiter", "hostile-memo", fmt.Sprintf("memo%d", len(t.Memo)%97)
		}
		if e.R.Intn(100) < 6 {
			// "every encoding of its fields": the same packet data followed by more bytes. ICS-20
			// (and blockibc above the orbiter) read the first JSON value and ignore the rest, so
			// the packet means the same
			data := t.Data()
			trailer := []string{"{}", "]", ",", "\x00", " x", "\n{\"a\":1}", string(data)}[e.R.Intn(7)]
			t.RawData = append(append([]byte(nil), data...), trailer...)
			hs.RecvCls += "+trailing-bytes"
		}
		ctx, _ := l.Base.CacheContext()
		applySetup(e.R, l, ctx, t, &hs, true)
		e.Log(map[string]any{"transfer": t, "setup": hs})
		o := run.Do(l.W, ctx, t, run.Mode{Kind: "H"})
		e.Res.Eval()
		e.Res.Count("outcome:" + outcomeClass(o))
		before := len(e.Res.Violations)
		Universal(e.Res, o)
		for j := before; j < len(e.Res.Violations); j++ {
			if w, ok := e.Res.Violations[j].Witness.(Witness); ok {
				w.Setup = hs
				e.Res.Violations[j].Witness = w
			}
		}
		if IsOrbiterReceiver(t.Receiver) || o.Success() {
			e.Res.Sig("%s|%s|%s|%s|dep=%v|paused=%v", hs.RecvCls, hs.RouteCls, hs.FeeCls, outcomeClass(o), len(hs.Deposits) > 0, len(hs.Paused) > 0)
		}
		if i < 3 {
			e.Res.Sample(map[string]any{"transfer": t, "setup": hs, "outcome": o.Res.String(), "delta": o.Delta.String()})
		}
		if i%3 == 0 {
			aftermath(e, l, ctx, t, hs)
		}
	}
	// histories in which the statistics of a route cannot be updated any more (cumulative total
	// at the 256-bit limit): the transfer itself must still be all-or-nothing
	if e.Shard == 2%e.Shards {
		overflowHistoryC01(e, l)
	}
	if e.Shard == 3%e.Shards {
		genesisNearLimitC01(e, l)
	}
	if e.Shard == 4%e.Shards && !l.W.Cfg.SkipHyperlane {
		reusedTokenIDC01(e, l)
	}
	// Mode C: the orbiter middleware directly around ICS-20 (no blockibc), same oracle.
	nc := e.N(1500, 60000)
	mod := l.W.OrbiterStack()
	for i := 0; i < nc; i++ {
		t, hs := genHostile(e.R, l, 20)
		ctx, _ := l.Base.CacheContext()
		applySetup(e.R, l, ctx, t, &hs, true)
		e.Log(map[string]any{"transfer": t, "setup": hs, "mode": "C"})
		o := run.Do(l.W, ctx, t, run.Mode{Kind: "C", Mod: mod})
		e.Res.Eval()
		e.Res.Count("outcomeC:" + outcomeClass(o))
		Universal(e.Res, o)
		if IsOrbiterReceiver(t.Receiver) || o.Success() {
			e.Res.Sig("C|%s|%s|%s|%s", hs.RecvCls, hs.RouteCls, hs.FeeCls, outcomeClass(o))
		}
	}
}

// overflowHistoryC01: 2^255 ubig twice over one route (the recipient sends the coins out again in
// between), with and without a fee on the second transfer.
func overflowHistoryC01(e *fw.Env, l *Lab) {
	w := l.W
	for _, withFee := range []bool{false, true} {
		ctx, _ := l.Base.CacheContext()
		rcpt := w.K("rcpt1")
		pair := w.Channels[0]
		amt := pow2(255)
		for i := 0; i < 3; i++ {
			s := &spec.Spec{Route: spec.Route{Kind: "internal", To: rcpt.String()}}
			if withFee && i > 0 {
				s.HasFee, s.Fees = true, []spec.Fee{{Recipient: w.K("fee1").String(), IsBPS: true, BPS: 1}}
			}
			t := run.Transfer{Pair: pair, Denom: world.BIG, Amount: amt.String(), Sender: w.K("bob").String(), Receiver: OrbiterReceiver(), Spec: s}
			e.Log(map[string]any{"overflow_history_step": i, "with_fee": withFee})
			o := run.Do(w, ctx, t, run.Mode{Kind: "H"})
			e.Res.Eval()
			before := len(e.Res.Violations)
			MonPanic(e.Res, o)
			MonC01(e.Res, o)
			MonC02(e.Res, o)
			attachSetup(e.Res, before, map[string]any{"history": "transfers of 2^255 ubig over one route until its statistics cannot be updated", "step": i, "with_fee": withFee})
			if !o.Success() {
				break
			}
			e.Res.Sig("overflow-history|step%d|fee=%v|%s", i, withFee, outcomeClass(o))
			// the recipient sends everything it got out again
			got := o.Delta.Of(rcpt.String(), world.BIG)
			if got.Sign() <= 0 {
				break
			}
			hr := w.Handle(ctx, w.MsgTransfer(pair.A, sdk.NewCoin(world.BIG, sdkmath.NewIntFromBigInt(got)), rcpt.String(), w.K("bob").String(), ""))
			if hr.Err != nil {
				break
			}
			amt = got
		}
	}
}

// genesisNearLimitC01: a chain whose imported statistics for a route are just below 2^256-1;
// ordinary packets on that route.
func genesisNearLimitC01(e *fw.Env, l *Lab) {
	near := new(big.Int).Sub(MaxU256, big.NewInt(500000)).String()
	gen := fmt.Sprintf(`{"adapter_genesis":{"params":{"max_passthrough_payload_size":0}},"dispatcher_genesis":{"dispatched_amounts":[{"source_id":{"protocol_id":"PROTOCOL_IBC","counterparty_id":"channel-0"},"destination_id":{"protocol_id":"PROTOCOL_INTERNAL","counterparty_id":"noble"},"denom":"uusdc","amount_dispatched":{"incoming":"%s","outgoing":"%s"}}],"dispatched_counts":[{"source_id":{"protocol_id":"PROTOCOL_IBC","counterparty_id":"channel-0"},"destination_id":{"protocol_id":"PROTOCOL_INTERNAL","counterparty_id":"noble"},"count":"18446744073709551615"}]},"forwarder_genesis":{"paused_protocol_ids":[],"paused_cross_chain_ids":[]},"executor_genesis":{"paused_action_ids":[]}}`, near, near)
	l2, err := NewLab(world.Config{OrbiterGenesis: []byte(gen)})
	if err != nil {
		e.Res.Inconc("near-limit genesis world: %v", err)
		return
	}
	w := l2.W
	for i := 0; i < 6; i++ {
		s := &spec.Spec{Route: spec.Route{Kind: "internal", To: w.K("rcpt2").String()}}
		if i%2 == 1 {
			s.HasFee, s.Fees = true, []spec.Fee{{Recipient: w.K("fee2").String(), IsBPS: true, BPS: 100}}
		}
		t := run.Transfer{Pair: w.Channels[0], Denom: world.USDC, Amount: "1000000", Sender: w.K("bob").String(), Receiver: OrbiterReceiver(), Spec: s}
		ctx, _ := l2.Base.CacheContext()
		o := run.Do(w, ctx, t, run.Mode{Kind: "H"})
		e.Res.Eval()
		before := len(e.Res.Violations)
		MonPanic(e.Res, o)
		MonC01(e.Res, o)
		MonC02(e.Res, o)
		attachSetup(e.Res, before, map[string]any{"genesis": "statistics of the route at 2^256-1-500000, count at 2^64-1"})
		e.Res.Sig("near-limit-genesis|fee=%v|%s", i%2 == 1, outcomeClass(o))
	}
}

// reusedTokenIDC01: warp token ids come from a sequence kept in state, so a token created in a
// transaction that is later discarded (failed transaction, simulation) hands its id to the next
// token created. History: on a discarded branch a collateral token for uusdc is created and used
// by an orbiter transfer; on the real branch the next token created (same id) is uusdn
// collateral, the orbiter account holds uusdn, and a uusdc packet names that id.
func reusedTokenIDC01(e *fw.Env, l *Lab) {
	w := l.W
	owner := w.K("hypowner").String()
	create := func(ctx sdkCtx, denom string) ([]byte, error) {
		hr := w.Handle(ctx, &warptypes.MsgCreateCollateralToken{Owner: owner, OriginMailbox: w.Hyp.Mailbox, OriginDenom: denom})
		if hr.Err != nil {
			return nil, hr.Err
		}
		var resp warptypes.MsgCreateCollateralTokenResponse
		if len(hr.Resp.MsgResponses) != 1 {
			return nil, fmt.Errorf("no response")
		}
		if err := gogoproto.Unmarshal(hr.Resp.MsgResponses[0].Value, &resp); err != nil {
			return nil, err
		}
		hr = w.Handle(ctx, &warptypes.MsgEnrollRemoteRouter{Owner: owner, TokenId: resp.Id, RemoteRouter: &warptypes.RemoteRouter{
			ReceiverDomain: 1, ReceiverContract: "0x000000000000000000000000000000000000000000000000000000000000beef", Gas: sdkmath.NewInt(50_000)}})
		return resp.Id.Bytes(), hr.Err
	}
	zero := "0"
	mint := make([]byte, 32)
	mint[31] = 5
	transfer := func(ctx sdkCtx, tok []byte, denom string) *run.Obs {
		rt := spec.Route{Kind: "hyp", Domain: 1, TokenID: tok, Recipient: mint, GasLimit: &zero, MaxFee: &spec.Coin{Denom: world.USDN, Amount: "0"}}
		t := run.Transfer{Pair: w.Channels[0], Denom: denom, Amount: "400000", Sender: w.K("bob").String(), Receiver: OrbiterReceiver(), Spec: &spec.Spec{Route: rt}}
		return run.Do(w, ctx, t, run.Mode{Kind: "H"})
	}
	for _, pairDenoms := range [][2]string{{world.USDC, world.USDN}, {world.USDN, world.USDC}} {
		a, b := pairDenoms[0], pairDenoms[1]
		// discarded branch
		d, _ := l.Base.CacheContext()
		idA, err := create(d, a)
		if err != nil {
			e.Res.Inconc("token creation on the discarded branch: %v", err)
			return
		}
		oa := transfer(d, idA, a)
		// real branch
		ctx, _ := l.Base.CacheContext()
		idB, err := create(ctx, b)
		if err != nil {
			e.Res.Inconc("token creation: %v", err)
			return
		}
		if string(idA) != string(idB) {
			e.Res.Count("reused-token-id:ids-differ")
			continue
		}
		Deposit(w, ctx, w.K("carol"), b, big.NewInt(5_000_000))
		o := transfer(ctx, idB, a)
		e.Res.Eval()
		before := len(e.Res.Violations)
		MonPanic(e.Res, o)
		MonC01(e.Res, o)
		MonC02(e.Res, o)
		attachSetup(e.Res, before, map[string]any{"history": "a token with this id was created for " + a + " and used on a branch that was discarded; the committed token with the same id is " + b + " collateral; the orbiter account holds 5000000" + b,
			"discarded_branch_transfer": oa.Res.String()})
		e.Res.Sig("reused-token-id|%s-then-%s|discarded=%s|real=%s", a, b, outcomeClass(oa), outcomeClass(o))
	}
}
