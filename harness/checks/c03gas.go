package checks

import (
	"fmt"
	"math/big"
	"strings"

	storetypes "cosmossdk.io/store/types"
	sdk "github.com/cosmos/cosmos-sdk/types"
	channeltypes "github.com/cosmos/ibc-go/v8/modules/core/04-channel/types"

	"orbverif/fw"
	"orbverif/run"
	"orbverif/spec"
	"orbverif/world"
)

// tapMeter records the cumulative gas after every consumption: each entry is a point at which
// the execution can be cut by a gas limit.
type tapMeter struct {
	storetypes.GasMeter
	points *[]uint64
}

func (m tapMeter) ConsumeGas(amount storetypes.Gas, descriptor string) {
	m.GasMeter.ConsumeGas(amount, descriptor)
	*m.points = append(*m.points, m.GasMeter.GasConsumed())
}

// gasExhaustion cuts the delivery of every payload shape at every point at which gas is consumed
// (every store read and write of the receive path, in the orbiter and in the modules below it):
// the node's own way of failing in the middle of a step. The out-of-gas panic must abort the
// delivery - or, if anything turns it into an answer, that answer must be an error
// acknowledgement - never a success acknowledgement; and an aborted delivery must leave nothing
// behind in the process: the same packet with enough gas afterwards gives exactly the fault-free
// result. Runs on the native wiring (mode C and, for a sample, the real core handler).
func gasExhaustion(e *fw.Env) {
	l, err := NewLab(world.Config{})
	if err != nil {
		e.Res.Inconc("world: %v", err)
		return
	}
	w := l.W
	stack := w.OrbiterStack()
	idx := 0
	stride := 6
	if e.Thorough() {
		stride = 1
	}
	totalPoints, cuts := 0, 0
	emptyDelta := (&world.Delta{}).String()
	for _, sh := range l.shapes() {
		base, _ := l.Base.CacheContext()
		if sh.Dust {
			if err := Deposit(w, base, w.K("carol"), sh.Denom, big.NewInt(4321)); err != nil {
				e.Res.Inconc("deposit: %v", err)
				continue
			}
		}
		s := sh.Spec
		t := run.Transfer{Pair: w.Channels[0], Denom: sh.Denom, Amount: "1000000", Sender: w.K("bob").String(), Receiver: OrbiterReceiver(), Spec: &s}
		pkt := channeltypes.NewPacket(t.Data(), 1, world.Port, t.Pair.B, world.Port, t.Pair.A, w.FarTimeout(), 0)
		type outcome struct {
			res   world.RecvResult
			delta string
			stats string
		}
		exec := func(limit uint64, tap *[]uint64) outcome {
			ctx, _ := base.CacheContext()
			before := w.Snapshot(ctx)
			sb := run.ReadStats(w, ctx)
			var gm storetypes.GasMeter = storetypes.NewInfiniteGasMeter()
			if limit > 0 {
				gm = storetypes.NewGasMeter(limit)
			}
			if tap != nil {
				gm = tapMeter{GasMeter: gm, points: tap}
			}
			r := w.RecvC(ctx.WithGasMeter(gm), stack, pkt)
			return outcome{res: r, delta: world.Diff(before, w.Snapshot(ctx)).String(), stats: fmt.Sprint(run.StatsDelta(sb, run.ReadStats(w, ctx)))}
		}
		var points []uint64
		ref := exec(0, &points)
		e.Res.Eval()
		if ref.res.Panic != nil || !ref.res.AckOK {
			e.Res.Inconc("gas: shape %s does not succeed with unlimited gas: %s", sh.Name, ref.res.String())
			continue
		}
		// distinct cut points
		var cutsAt []uint64
		for i, p := range points {
			if i == 0 || p != points[i-1] {
				cutsAt = append(cutsAt, p)
			}
		}
		totalPoints += len(cutsAt)
		for k, p := range cutsAt {
			idx++
			if !e.Mine(idx) || (k%stride != 0 && k != len(cutsAt)-1) {
				continue
			}
			limit := p - 1 // the k-th consumption is the first that does not fit
			if limit == 0 {
				continue
			}
			e.Log(map[string]any{"gas_cut": sh.Name, "point": k, "limit": limit})
			o := exec(limit, nil)
			e.Res.Eval()
			cuts++
			wtn := map[string]any{"shape": sh.Name, "cut_at_consumption_point": k, "of": len(cutsAt), "gas_limit": limit, "gas_needed": cutsAt[len(cutsAt)-1],
				"outcome": o.res.String(), "ledger_delta": o.delta}
			tags := map[string]string{"site": "out-of-gas"}
			cls := "aborted"
			switch {
			case o.res.Panic != nil:
				if _, ok := o.res.Panic.(storetypes.ErrorOutOfGas); !ok && !strings.Contains(fmt.Sprint(o.res.Panic), "out of gas") {
					e.Res.Violate(fw.Violation{Property: "C14", Kind: "panic", Tags: map[string]string{"site": "C03-gas-workload"}, Detail: fmt.Sprint(o.res.Panic), Witness: wtn})
				}
				if o.delta != emptyDelta {
					// RecvC writes nothing when the callback panics; a delta here would be the harness' fault
					e.Res.Inconc("gas: ledger changed although the delivery was aborted: %s", o.delta)
				}
			case o.res.Ack == nil:
				e.Res.Violate(fw.Violation{Property: "C03", Kind: "no-acknowledgement-after-failure", Tags: tags, Detail: "the delivery ran out of gas and returned no acknowledgement", Witness: wtn})
			case o.res.AckOK:
				e.Res.Violate(fw.Violation{Property: "C03", Kind: "success-acknowledgement-after-failure", Tags: tags,
					Detail: fmt.Sprintf("shape %s needs %d gas; with a limit of %d (cut at consumption point %d of %d) the acknowledgement is a success (ledger delta {%s}, fault-free {%s})", sh.Name, cutsAt[len(cutsAt)-1], limit, k, len(cutsAt), o.delta, ref.delta), Witness: wtn})
				cls = "success"
			default:
				cls = "error-ack"
				e.Res.Count("gas:out-of-gas-turned-into-error-acknowledgement")
			}
			// nothing of the aborted delivery may survive in the process
			again := exec(0, nil)
			e.Res.Eval()
			if string(again.res.Ack) != string(ref.res.Ack) || again.delta != ref.delta || again.stats != ref.stats ||
				maskPtr(renderEvents(again.res.Events)) != maskPtr(renderEvents(ref.res.Events)) {
				wtn["same_packet_afterwards"] = again.res.String()
				wtn["same_packet_afterwards_delta"] = again.delta
				wtn["fault_free"] = ref.res.String()
				wtn["fault_free_delta"] = ref.delta
				e.Res.Violate(fw.Violation{Property: "C03", Kind: "aborted-delivery-leaves-traces", Tags: tags,
					Detail: fmt.Sprintf("shape %s: after a delivery aborted at consumption point %d the same packet on the same state no longer gives the fault-free result (ack %q vs %q, delta {%s} vs {%s})", sh.Name, k, trunc(string(again.res.Ack), 120), trunc(string(ref.res.Ack), 120), again.delta, ref.delta), Witness: wtn})
			}
			e.Res.Sig("gas|%s|%s|decile%d", sh.Name, cls, 10*k/len(cutsAt))
		}
		if sh.Name == "hyp/fee5/dust=true" && e.Shard == 0 {
			e.Res.Sample(map[string]any{"gas_shape": sh.Name, "gas_needed": cutsAt[len(cutsAt)-1], "distinct_consumption_points": len(cutsAt), "stride": stride})
		}
	}
	e.Res.CountN("gas:consumption-points-seen", totalPoints)
	e.Res.CountN("gas:deliveries-cut", cuts)
	_ = sdk.Context{}
}

// statsLimitC03: the one failure the dispatcher deliberately swallows is that of the statistics
// update. On a chain whose statistics for a route are at the representation limit (imported totals
// just below 2^256-1, count at 2^64-1) a transfer may still be acknowledged as successful - but
// only as a complete transfer: fees paid and the rest handed to the route, exactly as the model
// says. A success acknowledgement over anything less is a partial success.
func statsLimitC03(e *fw.Env) {
	if e.Shard != 1%e.Shards && !e.Thorough() {
		return
	}
	near := new(big.Int).Sub(MaxU256, big.NewInt(500000)).String()
	mk := func(proto, cp string) (string, string) {
		a := fmt.Sprintf(`{"source_id":{"protocol_id":"PROTOCOL_IBC","counterparty_id":"channel-0"},"destination_id":{"protocol_id":"%s","counterparty_id":"%s"},"denom":"uusdc","amount_dispatched":{"incoming":"%s","outgoing":"%s"}}`, proto, cp, near, near)
		c := fmt.Sprintf(`{"source_id":{"protocol_id":"PROTOCOL_IBC","counterparty_id":"channel-0"},"destination_id":{"protocol_id":"%s","counterparty_id":"%s"},"count":"18446744073709551615"}`, proto, cp)
		return a, c
	}
	a1, c1 := mk("PROTOCOL_INTERNAL", "noble")
	a2, c2 := mk("PROTOCOL_CCTP", "0")
	a3, c3 := mk("PROTOCOL_HYPERLANE", "1")
	gen := fmt.Sprintf(`{"adapter_genesis":{"params":{"max_passthrough_payload_size":0}},"dispatcher_genesis":{"dispatched_amounts":[%s,%s,%s],"dispatched_counts":[%s,%s,%s]},"forwarder_genesis":{"paused_protocol_ids":[],"paused_cross_chain_ids":[]},"executor_genesis":{"paused_action_ids":[]}}`, a1, a2, a3, c1, c2, c3)
	l2, err := NewLab(world.Config{OrbiterGenesis: []byte(gen)})
	if err != nil {
		e.Res.Inconc("near-limit genesis world: %v", err)
		return
	}
	w := l2.W
	mint := make([]byte, 32)
	mint[31] = 9
	zero := "0"
	routes := []spec.Route{
		{Kind: "internal", To: w.K("rcpt2").String()},
		{Kind: "cctp", Domain: 0, MintRecipient: mint},
		{Kind: "hyp", Domain: 1, TokenID: w.Hyp.TokenUSDC.Bytes(), Recipient: mint, GasLimit: &zero, MaxFee: &spec.Coin{Denom: world.USDN, Amount: "0"}},
	}
	for ri, rt := range routes {
		for _, withFee := range []bool{false, true} {
			s := &spec.Spec{Route: rt}
			if withFee {
				s.HasFee, s.Fees = true, []spec.Fee{{Recipient: w.K("fee2").String(), IsBPS: true, BPS: 100}, {Recipient: w.K("fee1").String(), Amount: "17"}}
			}
			t := run.Transfer{Pair: w.Channels[0], Denom: world.USDC, Amount: "1000000", Sender: w.K("bob").String(), Receiver: OrbiterReceiver(), Spec: s}
			for _, mode := range []run.Mode{{Kind: "H"}, {Kind: "C", Mod: w.OrbiterStack()}} {
				ctx, _ := l2.Base.CacheContext()
				e.Log(map[string]any{"stats_limit_route": rt.Kind, "fee": withFee, "mode": mode.Kind})
				o := run.Do(w, ctx, t, mode)
				e.Res.Eval()
				MonPanic(e.Res, o)
				if o.Res.Panic != nil || o.Res.Err != nil {
					continue
				}
				wtn := map[string]any{"genesis": "statistics of the route at 2^256-1-500000, count at 2^64-1", "transfer": t, "mode": mode.Kind, "outcome": o.Res.String(), "delta": o.Delta.String()}
				tags := map[string]string{"site": "statistics-at-representation-limit"}
				switch {
				case o.Res.Ack == nil:
					e.Res.Violate(fw.Violation{Property: "C03", Kind: "no-acknowledgement-after-failure", Tags: tags, Detail: "no acknowledgement", Witness: wtn})
				case o.Success():
					tmp := fw.NewResult("C02")
					MonC02(tmp, o)
					MonC01(tmp, o)
					if len(tmp.Violations) > 0 {
						e.Res.Violate(fw.Violation{Property: "C03", Kind: "success-acknowledgement-before-fund-movements-completed", Tags: tags,
							Detail: fmt.Sprintf("route %s (fee=%v): the statistics cannot take the transfer; the acknowledgement is a success, yet the transfer is not complete: %s", rt.Kind, withFee, tmp.Violations[0].Detail), Witness: wtn})
					}
				default:
					if len(o.Delta.Bal) != 0 || len(o.Delta.Supply) != 0 {
						e.Res.Violate(fw.Violation{Property: "C03", Kind: "effects-survive-error-acknowledgement", Tags: tags, Detail: o.Delta.String(), Witness: wtn})
					}
				}
				e.Res.Sig("stats-limit|%d|fee=%v|%s|%s", ri, withFee, mode.Kind, outcomeClass(o))
			}
		}
	}
}
