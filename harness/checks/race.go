package checks

import (
	"fmt"
	"math/big"
	"math/rand"
	"os"
	"os/exec"
	"path/filepath"
	"strings"
	"sync"
	"sync/atomic"

	abci "github.com/cometbft/cometbft/abci/types"

	"github.com/cosmos/cosmos-sdk/types/query"

	adapterctrl "github.com/noble-assets/orbiter/v2/controller/adapter"
	orbitertypes "github.com/noble-assets/orbiter/v2/types"
	dispatchertypes "github.com/noble-assets/orbiter/v2/types/component/dispatcher"
	executortypes "github.com/noble-assets/orbiter/v2/types/component/executor"
	forwardertypes "github.com/noble-assets/orbiter/v2/types/component/forwarder"

	"orbverif/fw"
	"orbverif/world"
)

// RaceWorkload is what the race-detector build runs: N worlds replay the same recorded history
// on N goroutines while other goroutines issue real ABCI queries (the query router of baseapp,
// served from committed versions) against those worlds, and 8 goroutines parse a memo corpus on a
// shared parser. It returns counts of what ran.
func RaceWorkload(seed int64, blocks, worlds int) (map[string]int64, error) {
	e := &fw.Env{Property: "C19", Tier: "quick", Seed: seed, Shards: 1, R: rand.New(rand.NewSource(seed)), Res: fw.NewResult("C19")}
	st, _, err := RecordStream(e, 2, blocks)
	if err != nil {
		return nil, err
	}
	var nQueries, nBlocks, nParses int64
	labs := make([]*Lab, worlds)
	for i := range labs {
		l, err := NewLab(world.Config{Channels: st.Channels})
		if err != nil {
			return nil, err
		}
		labs[i] = l
	}
	var wg sync.WaitGroup
	done := make(chan struct{})
	traces := make([]*Trace, worlds)
	errs := make([]error, worlds)
	for i := range labs {
		wg.Add(1)
		go func(i int) {
			defer wg.Done()
			traces[i], errs[i] = replayOn(labs[i], st, int64(i%2)*int64(1000+i))
			atomic.AddInt64(&nBlocks, int64(len(st.Blocks)))
		}(i)
	}
	// query goroutines: real ABCI Query against committed state while blocks execute
	paths := []struct {
		path string
		req  interface{ Marshal() ([]byte, error) }
	}{
		{"/noble.orbiter.component.dispatcher.v1.Query/DispatchedCountsBySourceProtocolID", &dispatchertypes.QueryDispatchedCountsByProtocolIDRequest{ProtocolId: "PROTOCOL_IBC", Pagination: &query.PageRequest{Limit: 3}}},
		{"/noble.orbiter.component.dispatcher.v1.Query/DispatchedAmountsByDestinationProtocolID", &dispatchertypes.QueryDispatchedAmountsByProtocolIDRequest{ProtocolId: "PROTOCOL_CCTP"}},
		{"/noble.orbiter.component.forwarder.v1.Query/PausedProtocols", &forwardertypes.QueryPausedProtocolsRequest{}},
		{"/noble.orbiter.component.forwarder.v1.Query/PausedCrossChains", &forwardertypes.QueryPausedCrossChainsRequest{ProtocolId: "PROTOCOL_CCTP"}},
		{"/noble.orbiter.component.executor.v1.Query/PausedActions", &executortypes.QueryPausedActionsRequest{}},
		{"/noble.orbiter.v1.Query/ActionIDs", &orbitertypes.QueryActionIDsRequest{}},
		{"/noble.orbiter.v1.Query/ProtocolIDs", &orbitertypes.QueryProtocolIDsRequest{}},
	}
	var qwg sync.WaitGroup
	var qErr atomic.Value
	for g := 0; g < 4; g++ {
		qwg.Add(1)
		go func(g int) {
			defer qwg.Done()
			for k := 0; ; k++ {
				select {
				case <-done:
					return
				default:
				}
				l := labs[(g+k)%len(labs)]
				p := paths[(g*3+k)%len(paths)]
				bz, _ := p.req.Marshal()
				res, err := l.W.App.Query(nil, &abci.RequestQuery{Path: p.path, Data: bz})
				if err != nil {
					qErr.Store(err.Error())
				} else if res.Code != 0 && !strings.Contains(res.Log, "height") {
					qErr.Store(res.Log)
				}
				atomic.AddInt64(&nQueries, 1)
			}
		}(g)
	}
	// parser goroutines on a shared instance
	l0 := labs[0]
	var corpus []string
	for _, tpl := range l0.Templates() {
		for i, m := range MutateMemo(tpl) {
			if i%9 == 0 && len(m.Memo) < 4000 {
				corpus = append(corpus, m.Memo)
			}
		}
	}
	shared, err := adapterctrl.NewIBCParser(l0.W.Cdc)
	if err != nil {
		return nil, err
	}
	var pwg sync.WaitGroup
	for g := 0; g < 8; g++ {
		pwg.Add(1)
		go func(g int) {
			defer pwg.Done()
			for k := range corpus {
				func() {
					defer func() { recover() }()
					shared.ParsePayload([]byte(corpus[(k*5+g)%len(corpus)]))
				}()
				atomic.AddInt64(&nParses, 1)
			}
		}(g)
	}
	wg.Wait()
	close(done)
	qwg.Wait()
	pwg.Wait()
	for i := range errs {
		if errs[i] != nil {
			return nil, errs[i]
		}
	}
	out := map[string]int64{"worlds": int64(worlds), "blocks_replayed": nBlocks, "concurrent_queries": nQueries, "concurrent_parses": nParses}
	for i := 1; i < worlds; i++ {
		if kind, detail := CompareTraces(traces[0], traces[i], false); kind != "" {
			return out, fmt.Errorf("parallel worlds diverge in %s: %s", kind, detail)
		}
	}
	if v := qErr.Load(); v != nil {
		out["query_errors"] = 1
	}
	_ = big.NewInt
	return out, nil
}

// RaceReport is the parsed result of a race-detector run.
type RaceReport struct {
	Ran      bool
	Counts   map[string]int64
	Orbiter  []string // de-duplicated reports with an orbiter frame
	Harness  []string
	Foreign  []string
	ExitErr  string
	Diverged string
}

// RunRaceBinary executes the race build of orbcheck on the race workload and parses its logs.
func RunRaceBinary(seed int64, thorough bool) RaceReport {
	bin := filepath.Join(VerifDir(), "bin", "orbcheck-race")
	rep := RaceReport{Counts: map[string]int64{}}
	if _, err := os.Stat(bin); err != nil {
		return rep
	}
	os.MkdirAll(filepath.Join(VerifDir(), ".work"), 0o755)
	dir, err := os.MkdirTemp(filepath.Join(VerifDir(), ".work"), "race-")
	if err != nil {
		return rep
	}
	defer os.RemoveAll(dir)
	blocks, worlds := "25", "3"
	if thorough {
		blocks, worlds = "150", "4"
	}
	cmd := exec.Command(bin, "racerun", fmt.Sprint(seed), blocks, worlds)
	cmd.Env = append(os.Environ(), "GORACE=halt_on_error=0 exitcode=0 log_path="+filepath.Join(dir, "race.log"))
	out, err := cmd.CombinedOutput()
	rep.Ran = true
	if err != nil {
		rep.ExitErr = err.Error() + ": " + trunc(string(out), 600)
	}
	for _, line := range strings.Split(string(out), "\n") {
		var k string
		var v int64
		if n, _ := fmt.Sscanf(line, "RACE-WORKLOAD %s %d", &k, &v); n == 2 {
			rep.Counts[k] = v
		}
		if strings.HasPrefix(line, "RACE-DIVERGED ") {
			rep.Diverged = strings.TrimPrefix(line, "RACE-DIVERGED ")
		}
	}
	logs, _ := filepath.Glob(filepath.Join(dir, "race.log*"))
	seen := map[string]bool{}
	for _, lf := range logs {
		bz, _ := os.ReadFile(lf)
		for _, block := range strings.Split(string(bz), "WARNING: DATA RACE")[1:] {
			// The two accesses: the first stack after "Write at"/"Read at" and the one after
			// "Previous write at"/"Previous read at". A report is attributed to the package of
			// the first non-runtime frame of each access (where the racing memory is touched),
			// line numbers and arguments stripped.
			var tops []string
			lines := strings.Split(block, "\n")
			for i, ln := range lines {
				t := strings.TrimSpace(ln)
				if strings.HasPrefix(t, "Write at") || strings.HasPrefix(t, "Read at") || strings.HasPrefix(t, "Previous write at") || strings.HasPrefix(t, "Previous read at") {
					for j := i + 1; j < len(lines); j++ {
						f := strings.TrimSpace(lines[j])
						if f == "" {
							break
						}
						if strings.HasPrefix(f, "/") || strings.HasPrefix(f, "runtime.") || strings.HasPrefix(f, "sync.") || strings.HasPrefix(f, "sync/atomic.") || strings.HasPrefix(f, "internal/") {
							continue
						}
						if k := strings.LastIndex(f, "("); k > 0 {
							f = f[:k]
						}
						tops = append(tops, f)
						break
					}
				}
			}
			key := strings.Join(tops, " <-> ")
			if seen[key] {
				continue
			}
			seen[key] = true
			isOrb, isHarness := false, false
			for _, t := range tops {
				if strings.HasPrefix(t, "github.com/noble-assets/orbiter/v2/") && !strings.HasPrefix(t, "github.com/noble-assets/orbiter/v2/simapp") {
					isOrb = true
				}
				if strings.HasPrefix(t, "orbverif/") {
					isHarness = true
				}
			}
			switch {
			case isOrb:
				rep.Orbiter = append(rep.Orbiter, trunc(key, 500))
			case isHarness:
				rep.Harness = append(rep.Harness, trunc(key, 500))
			default:
				rep.Foreign = append(rep.Foreign, trunc(key, 500))
			}
		}
	}
	return rep
}

func onlySimapp(block string) bool {
	for _, ln := range strings.Split(block, "\n") {
		if strings.Contains(ln, "github.com/noble-assets/orbiter/v2/") && !strings.Contains(ln, "github.com/noble-assets/orbiter/v2/simapp") {
			return false
		}
	}
	return true
}

func firstN(s []string, n int) []string {
	if len(s) > n {
		return s[:n]
	}
	return s
}

// VerifDir is the framework directory (exported by bin/check as VERIF_DIR).
func VerifDir() string {
	if d := os.Getenv("VERIF_DIR"); d != "" {
		return d
	}
	return "/verif"
}
