package checks

import (
	"fmt"
	"math/big"
	"sort"
	"strings"

	sdk "github.com/cosmos/cosmos-sdk/types"

	"orbverif/fw"
	"orbverif/model"
	"orbverif/run"
	"orbverif/world"
)

// Witness is the replayable description of a failing case.
type Witness struct {
	Transfer run.Transfer `json:"transfer"`
	Setup    any          `json:"setup,omitempty"`
	Outcome  string       `json:"outcome"`
	Delta    string       `json:"delta,omitempty"`
	Expected string       `json:"expected,omitempty"`
	Stats    any          `json:"stats,omitempty"`
	Extra    any          `json:"extra,omitempty"`
}

func wit(o *run.Obs) Witness {
	return Witness{Transfer: o.T, Outcome: o.Res.String(), Delta: o.Delta.String()}
}

// canonAddr returns the canonical lower-case bech32 of an address string accepted by the SDK.
func canonAddr(s string) string {
	a, err := sdk.AccAddressFromBech32(s)
	if err != nil {
		return s
	}
	return a.String()
}

// MonPanic is the universal C14 monitor: the receive path must not panic.
func MonPanic(res *fw.Result, o *run.Obs) bool {
	if o.Res.Panic == nil {
		return false
	}
	at := o.Res.PanicAt
	site := at
	if i := strings.Index(site, " @ "); i >= 0 {
		site = site[:i]
	}
	if i := strings.Index(site, "("); i >= 0 && strings.HasPrefix(site, "github.com") {
		// strip arguments of the frame
		if j := strings.LastIndex(site, "("); j > 0 {
			site = site[:j]
		}
	}
	w := wit(o)
	w.Extra = map[string]string{"panic": fmt.Sprint(o.Res.Panic), "at": at}
	res.Violate(fw.Violation{
		Property: "C14", Kind: "panic", Tags: map[string]string{"site": site},
		Detail:  fmt.Sprintf("receive path panicked: %v at %s", o.Res.Panic, at),
		Witness: w,
	})
	return true
}

// MonC01 is the universal C01 monitor.
func MonC01(res *fw.Result, o *run.Obs) {
	orb := world.OrbiterAddr().String()
	dust := world.DustAddr().String()
	isOrb := IsOrbiterReceiver(o.T.EffectiveReceiver())
	if o.Res.Panic != nil {
		return // C14's business
	}
	if o.Res.Err != nil {
		// handler-level error: the relayer's transaction fails, nothing is committed
		return
	}
	if o.Res.Ack == nil {
		if isOrb {
			res.Violate(fw.Violation{Property: "C01", Kind: "nil-ack", Detail: "no acknowledgement for an orbiter packet", Witness: wit(o)})
		}
		return
	}
	if o.Success() {
		// R1: no denomination may have grown on the orbiter account.
		for k, v := range o.Delta.Bal {
			if strings.HasPrefix(k, orb+"|") && v.Sign() > 0 {
				kind := "funds-left-on-orbiter"
				tags := map[string]string{"receiver_case": recvCase(o.T.Receiver)}
				if o.T.Spec != nil {
					tags["route"] = o.T.Spec.Route.Kind
					if o.T.Spec.Route.Kind == "internal" && canonAddr(o.T.Spec.Route.To) == orb {
						tags["internal_to"] = "orbiter"
					}
				}
				res.Violate(fw.Violation{Property: "C01", Kind: kind, Tags: tags,
					Detail:  fmt.Sprintf("success acknowledgement but orbiter balance grew: %s +%s", k, v),
					Witness: wit(o)})
			}
		}
		if isOrb {
			// R2: what left the orbiter account in the delivered denom is exactly what the dust
			// collector gained (pre-existing coins); nothing of the delivered coin stays.
			d := o.T.Denom
			if o.T.RawData != nil || o.T.RawDenom != nil {
				return // the delivered denomination is not known to the monitor
			}
			sum := new(big.Int).Add(o.Delta.Of(orb, d), o.Delta.Of(dust, d))
			if sum.Sign() != 0 || o.After.Get(orb, d).Sign() != 0 {
				if o.Delta.Of(orb, d).Sign() <= 0 { // growth already reported by R1
					res.Violate(fw.Violation{Property: "C01", Kind: "remainder-on-orbiter",
						Detail:  fmt.Sprintf("success but orbiter holds %s %s afterwards (Δorbiter=%s Δdust=%s)", o.After.Get(orb, d), d, o.Delta.Of(orb, d), o.Delta.Of(dust, d)),
						Witness: wit(o)})
				}
			}
		}
		return
	}
	// error acknowledgement
	if isOrb {
		if o.Res.AckErr == "" {
			res.Violate(fw.Violation{Property: "C01", Kind: "malformed-error-ack", Detail: "acknowledgement is neither success nor a well-formed error: " + string(o.Res.Ack), Witness: wit(o)})
		}
		if o.Res.Mode == "H" || o.Res.Mode == "T" {
			if len(o.Delta.Bal) != 0 || len(o.Delta.Supply) != 0 {
				res.Violate(fw.Violation{Property: "C01", Kind: "effects-after-error-ack", Detail: "ledger changed although the acknowledgement is an error: " + o.Delta.String(), Witness: wit(o)})
			}
		}
	}
}

func recvCase(s string) string {
	switch {
	case s == strings.ToLower(s):
		return "lower"
	case s == strings.ToUpper(s):
		return "upper"
	}
	return "mixed"
}

// ExpectedDelta is the model's full-ledger delta of a successful orbiter transfer.
func ExpectedDelta(o *run.Obs, fr model.FeeResult) *world.Delta {
	orb := world.OrbiterAddr().String()
	dust := world.DustAddr().String()
	d := o.T.Denom
	a := bi(o.T.Amount)
	exp := &world.Delta{Bal: map[string]*big.Int{}, Supply: map[string]*big.Int{}}
	add := func(addr, denom string, v *big.Int) {
		k := addr + "|" + denom
		if exp.Bal[k] == nil {
			exp.Bal[k] = new(big.Int)
		}
		exp.Bal[k].Add(exp.Bal[k], v)
	}
	add(EscrowAddr(o.T.Pair.A), d, new(big.Int).Neg(a))
	s := o.T.Spec
	forward := new(big.Int).Set(a)
	if s.HasFee {
		for i, f := range s.Fees {
			if fr.PerEntry[i] != nil {
				add(canonAddr(f.Recipient), d, fr.PerEntry[i])
			}
		}
		forward = fr.Forward
	}
	switch s.Route.Kind {
	case "cctp":
		exp.Supply[d] = new(big.Int).Neg(forward)
	case "hyp":
		add(ModAddr("warp"), d, forward)
	case "internal":
		add(canonAddr(s.Route.To), d, forward)
	}
	pre := o.Before.Get(orb, d)
	if pre.Sign() > 0 {
		add(orb, d, new(big.Int).Neg(pre))
		add(dust, d, pre)
	}
	for k, v := range exp.Bal {
		if v.Sign() == 0 {
			delete(exp.Bal, k)
		}
	}
	return exp
}

// MonC02 checks exact conservation for a successful orbiter transfer built from a spec.
// It returns false when the precondition (success, orbiter receiver, spec, model not refusing)
// does not hold.
func MonC02(res *fw.Result, o *run.Obs) bool {
	if !o.Success() || o.T.Spec == nil || o.T.RawData != nil || !IsOrbiterReceiver(o.T.Receiver) || o.T.RawDenom != nil {
		return false
	}
	a, ok := new(big.Int).SetString(o.T.Amount, 10)
	if !ok || a.Sign() <= 0 {
		return false
	}
	fr := model.FeeResult{Verdict: model.MustSucceed, Forward: a}
	if o.T.Spec.HasFee {
		fr = model.Fees(a, o.T.Spec.Fees)
		if fr.Verdict == model.MustRefuse || fr.Forward == nil {
			return false // C04's violation (or no exact model value), not C02's
		}
	}
	exp := ExpectedDelta(o, fr)
	if exp.Equal(o.Delta) {
		return true
	}
	w := wit(o)
	w.Expected = exp.String()
	kind, tags := classifyDeltaMismatch(o, exp)
	res.Violate(fw.Violation{Property: "C02", Kind: kind, Tags: tags,
		Detail:  fmt.Sprintf("ledger delta of a successful transfer differs from the model: got {%s} want {%s}", o.Delta, exp),
		Witness: w})
	return true
}

func classifyDeltaMismatch(o *run.Obs, exp *world.Delta) (string, map[string]string) {
	orb := world.OrbiterAddr().String()
	// differing keys
	var diff []string
	seen := map[string]bool{}
	for k := range exp.Bal {
		seen[k] = true
	}
	for k := range o.Delta.Bal {
		seen[k] = true
	}
	for k := range seen {
		g, e := o.Delta.Bal[k], exp.Bal[k]
		if g == nil {
			g = new(big.Int)
		}
		if e == nil {
			e = new(big.Int)
		}
		if g.Cmp(e) != 0 {
			diff = append(diff, k)
		}
	}
	sort.Strings(diff)
	// Hyperlane interchain gas payment taken from the orbiter account's own coins.
	if o.T.Spec != nil && o.T.Spec.Route.Kind == "hyp" {
		hyp := ModAddr("hyperlane")
		onlyGas := len(diff) > 0
		for _, k := range diff {
			if !strings.HasPrefix(k, orb+"|") && !strings.HasPrefix(k, hyp+"|") {
				onlyGas = false
			}
		}
		gasPaid := false
		for _, b := range o.Bridge {
			if b.Kind == "hyp-gas" {
				gasPaid = true
			}
		}
		if onlyGas && gasPaid {
			return "hyperlane-gas-paid-from-orbiter-balance", map[string]string{"route": "hyp", "hook": "igp"}
		}
	}
	return "delta-mismatch", map[string]string{"route": routeKind(o)}
}

func routeKind(o *run.Obs) string {
	if o.T.Spec == nil {
		return ""
	}
	return o.T.Spec.Route.Kind
}

// ExpectedStatsDelta is the statistics change a successful orbiter transfer must produce.
func ExpectedStatsDelta(o *run.Obs, forward *big.Int) map[string]string {
	s := o.T.Spec
	src := fmt.Sprintf("1|%s", o.T.Pair.A)
	dst := fmt.Sprintf("%d|%s", s.Route.ProtocolNum(), s.Route.Counterparty())
	return map[string]string{
		"amt|" + src + "|" + dst + "|" + o.T.Denom: o.T.Amount + "/" + forward.String(),
		"cnt|" + src + "|" + dst:                   "1",
	}
}

// MonC12 is the per-operation part of the C12 monitor: statistics move exactly by the model's
// entry on success and not at all otherwise.
func MonC12(res *fw.Result, o *run.Obs) bool {
	got := run.StatsDelta(o.StatsBefore, o.StatsAfter)
	if o.Res.Panic != nil {
		return false
	}
	if !o.Success() || !IsOrbiterReceiver(o.T.EffectiveReceiver()) {
		if len(got) != 0 {
			w := wit(o)
			w.Stats = got
			res.Violate(fw.Violation{Property: "C12", Kind: "stats-changed-without-successful-transfer",
				Detail: fmt.Sprintf("statistics changed by %v although no orbiter transfer succeeded", got), Witness: w})
		}
		return false
	}
	if o.T.Spec == nil || o.T.RawDenom != nil || o.T.RawData != nil {
		return false
	}
	a, ok := new(big.Int).SetString(o.T.Amount, 10)
	if !ok || a.Sign() <= 0 {
		return false
	}
	forward := a
	if o.T.Spec.HasFee {
		fr := model.Fees(a, o.T.Spec.Fees)
		if fr.Verdict == model.MustRefuse || fr.Forward == nil {
			return false
		}
		forward = fr.Forward
	}
	want := ExpectedStatsDelta(o, forward)
	if fmt.Sprint(got) != fmt.Sprint(want) {
		w := wit(o)
		w.Stats = map[string]any{"got": got, "want": want}
		res.Violate(fw.Violation{Property: "C12", Kind: "stats-delta-mismatch", Tags: map[string]string{"route": routeKind(o)},
			Detail: fmt.Sprintf("statistics delta %v, model %v", got, want), Witness: w})
	}
	return true
}

// Universal runs every always-on monitor on an observation.
func Universal(res *fw.Result, o *run.Obs) {
	MonPanic(res, o)
	MonC01(res, o)
	MonC02(res, o)
	MonC12(res, o)
}
