// Package run executes one operation against a world and records the observation the monitors
// work on: result, full-ledger delta, statistics before/after, bridge events.
package run

import (
	"bytes"
	"encoding/json"
	"fmt"
	"math/big"
	"sort"
	"strings"

	abci "github.com/cometbft/cometbft/abci/types"

	sdk "github.com/cosmos/cosmos-sdk/types"
	channeltypes "github.com/cosmos/ibc-go/v8/modules/core/04-channel/types"
	porttypes "github.com/cosmos/ibc-go/v8/modules/core/05-port/types"

	"orbverif/spec"
	"orbverif/world"
)

// Transfer describes one incoming ICS-20 packet.
type Transfer struct {
	Pair     world.ChannelPair `json:"pair"`
	Denom    string            `json:"denom"`               // Noble-side base denom; packet denom = transfer/<B>/<denom>
	RawDenom *string           `json:"raw_denom,omitempty"` // packet denom verbatim if set
	Amount   string            `json:"amount"`
	Sender   string            `json:"sender"`
	Receiver string            `json:"receiver"`
	Spec     *spec.Spec        `json:"spec,omitempty"`
	Memo     string            `json:"memo"`
	RawData  []byte            `json:"raw_data,omitempty"` // packet data verbatim if set
	Seq      uint64            `json:"seq,omitempty"`      // packet sequence (0 = next forged sequence)
}

// EffectiveReceiver is the receiver string the packet carries ("" if the data is not a JSON
// object with a string receiver).
func (t Transfer) EffectiveReceiver() string {
	if t.RawData == nil {
		return t.Receiver
	}
	var d struct {
		Receiver any `json:"receiver"`
	}
	// ICS-20 decodes the first JSON value of the data and ignores what follows.
	if err := json.NewDecoder(bytes.NewReader(t.RawData)).Decode(&d); err != nil {
		return ""
	}
	s, _ := d.Receiver.(string)
	return s
}

// PacketDenom is the denom string carried in the packet.
func (t Transfer) PacketDenom() string {
	if t.RawDenom != nil {
		return *t.RawDenom
	}
	return world.Port + "/" + t.Pair.B + "/" + t.Denom
}

// Data renders the packet data bytes.
func (t Transfer) Data() []byte {
	if t.RawData != nil {
		return t.RawData
	}
	memo := t.Memo
	if t.Spec != nil && memo == "" {
		memo = t.Spec.Memo()
	}
	return world.ICS20(t.PacketDenom(), t.Amount, t.Sender, t.Receiver, memo)
}

// AmountKey / CountKey identify statistics entries.
type Stats struct {
	Amounts map[string][2]string `json:"amounts"` // "sp|sc|dp|dc|denom" -> [incoming, outgoing]
	Counts  map[string]uint64    `json:"counts"`  // "sp|sc|dp|dc" -> n
}

// ReadStats reads the dispatcher statistics from the exported genesis.
func ReadStats(w *world.World, ctx sdk.Context) Stats {
	g := w.App.OrbiterKeeper.ExportGenesis(ctx)
	s := Stats{Amounts: map[string][2]string{}, Counts: map[string]uint64{}}
	for _, a := range g.DispatcherGenesis.DispatchedAmounts {
		k := fmt.Sprintf("%d|%s|%d|%s|%s", int32(a.SourceId.ProtocolId), a.SourceId.CounterpartyId,
			int32(a.DestinationId.ProtocolId), a.DestinationId.CounterpartyId, a.Denom)
		s.Amounts[k] = [2]string{a.AmountDispatched.Incoming.String(), a.AmountDispatched.Outgoing.String()}
	}
	for _, c := range g.DispatcherGenesis.DispatchedCounts {
		k := fmt.Sprintf("%d|%s|%d|%s", int32(c.SourceId.ProtocolId), c.SourceId.CounterpartyId,
			int32(c.DestinationId.ProtocolId), c.DestinationId.CounterpartyId)
		s.Counts[k] = c.Count
	}
	return s
}

// String renders stats deterministically.
func (s Stats) String() string {
	var keys []string
	for k := range s.Amounts {
		keys = append(keys, k)
	}
	sort.Strings(keys)
	var sb strings.Builder
	for _, k := range keys {
		fmt.Fprintf(&sb, "%s=%s/%s ", k, s.Amounts[k][0], s.Amounts[k][1])
	}
	keys = keys[:0]
	for k := range s.Counts {
		keys = append(keys, k)
	}
	sort.Strings(keys)
	for _, k := range keys {
		fmt.Fprintf(&sb, "#%s=%d ", k, s.Counts[k])
	}
	return strings.TrimSpace(sb.String())
}

// StatsDelta is the change of the statistics between two readings, as a canonical string map.
func StatsDelta(before, after Stats) map[string]string {
	out := map[string]string{}
	seen := map[string]bool{}
	for k := range before.Amounts {
		seen[k] = true
	}
	for k := range after.Amounts {
		seen[k] = true
	}
	for k := range seen {
		b, a := before.Amounts[k], after.Amounts[k]
		bi, bo := bigOr0(b[0]), bigOr0(b[1])
		ai, ao := bigOr0(a[0]), bigOr0(a[1])
		di, do := new(big.Int).Sub(ai, bi), new(big.Int).Sub(ao, bo)
		_, hadB := before.Amounts[k]
		_, hadA := after.Amounts[k]
		if di.Sign() != 0 || do.Sign() != 0 || hadA != hadB {
			out["amt|"+k] = di.String() + "/" + do.String()
		}
	}
	seen = map[string]bool{}
	for k := range before.Counts {
		seen[k] = true
	}
	for k := range after.Counts {
		seen[k] = true
	}
	for k := range seen {
		_, hadB := before.Counts[k]
		_, hadA := after.Counts[k]
		if before.Counts[k] != after.Counts[k] || hadA != hadB {
			out["cnt|"+k] = fmt.Sprintf("%d", int64(after.Counts[k])-int64(before.Counts[k]))
		}
	}
	return out
}

func bigOr0(s string) *big.Int {
	if s == "" {
		return new(big.Int)
	}
	v, ok := new(big.Int).SetString(s, 10)
	if !ok {
		return new(big.Int)
	}
	return v
}

// BridgeCall is one observed request at a bridge boundary (from typed events).
type BridgeCall struct {
	Kind   string            `json:"kind"` // "cctp", "hyp", "bank"
	Fields map[string]string `json:"fields"`
}

func unq(s string) string {
	var out string
	if err := json.Unmarshal([]byte(s), &out); err == nil {
		return out
	}
	return s
}

// BridgeCalls extracts CCTP deposit-for-burn and warp remote-transfer requests from events.
func BridgeCalls(events []abci.Event) []BridgeCall {
	var out []BridgeCall
	for _, e := range events {
		switch e.Type {
		case "circle.cctp.v1.DepositForBurn":
			f := map[string]string{}
			for _, a := range e.Attributes {
				f[a.Key] = unq(a.Value)
			}
			out = append(out, BridgeCall{Kind: "cctp", Fields: f})
		case "hyperlane.warp.v1.EventSendRemoteTransfer":
			f := map[string]string{}
			for _, a := range e.Attributes {
				f[a.Key] = unq(a.Value)
			}
			out = append(out, BridgeCall{Kind: "hyp", Fields: f})
		case "hyperlane.core.v1.EventDispatch":
			f := map[string]string{}
			for _, a := range e.Attributes {
				f[a.Key] = unq(a.Value)
			}
			out = append(out, BridgeCall{Kind: "hyp-dispatch", Fields: f})
		case "hyperlane.core.post_dispatch.v1.EventGasPayment":
			f := map[string]string{}
			for _, a := range e.Attributes {
				f[a.Key] = unq(a.Value)
			}
			out = append(out, BridgeCall{Kind: "hyp-gas", Fields: f})
		}
	}
	return out
}

// Obs is the observation of one delivered packet.
type Obs struct {
	T           Transfer
	Res         world.RecvResult
	Before      *world.Ledger
	After       *world.Ledger
	Delta       *world.Delta
	StatsBefore Stats
	StatsAfter  Stats
	Bridge      []BridgeCall
	Pkt         channeltypes.Packet
}

// Success reports a success acknowledgement.
func (o *Obs) Success() bool { return o.Res.Ack != nil && o.Res.AckOK }

// Mode selects the execution mode of Do.
type Mode struct {
	Kind string // "H" (core MsgRecvPacket handler) or "C" (direct callback on Mod)
	Mod  porttypes.IBCModule
}

// Do delivers the transfer on ctx (state is kept in ctx according to the mode's commit rule) and
// records the observation.
func Do(w *world.World, ctx sdk.Context, t Transfer, m Mode) *Obs {
	o := &Obs{T: t}
	o.Before = w.Snapshot(ctx)
	o.StatsBefore = ReadStats(w, ctx)
	switch m.Kind {
	case "C":
		o.Pkt = channeltypes.NewPacket(t.Data(), 1, world.Port, t.Pair.B, world.Port, t.Pair.A,
			w.FarTimeout(), 0)
		o.Res = w.RecvC(ctx, m.Mod, o.Pkt)
	default:
		if t.Seq != 0 {
			o.Pkt = w.ForgePacketSeq(ctx, t.Pair, t.Data(), t.Seq)
		} else {
			o.Pkt = w.ForgePacket(ctx, t.Pair, t.Data())
		}
		o.Res = w.RecvH(ctx, o.Pkt)
	}
	o.After = w.Snapshot(ctx)
	o.StatsAfter = ReadStats(w, ctx)
	o.Delta = world.Diff(o.Before, o.After)
	o.Bridge = BridgeCalls(o.Res.Events)
	return o
}
